#!/usr/bin/env python3
"""Re-confirm every seeded change on the current /repo HEAD and run the checks against it.

For each /verif/seeded/<id>/ (patch.diff, run.sh = the sub-agent's demonstration, README.md):
  1. lib/seedconfirm.sh: the demonstration passes on the clean tree, the patch applies and
     builds, the pinned test-suite still passes 16/16, the demonstration fails with the patch;
  2. lib/seedrun.sh: the check of the property (plus any extra check named on the command
     line as <id>=<check>[,<check>]) is run (quick tier) against a scratch worktree carrying
     the patch;
and writes /verif/seeded/<id>/meta.json.  Nothing is ever applied to /repo itself.

usage: seedsweep.py [<id> ...]       (default: all)
"""
import json
import os
import re
import subprocess
import sys
import time

VERIF = os.path.dirname(os.path.dirname(os.path.abspath(__file__)))
SEEDED = os.path.join(VERIF, "seeded")
EXTRA = {"C01-m7": ["C10"], "C13-m2": ["C10"], "C15-m1": ["C10"], "C05-m4": ["C19"], "C11-m3": ["C10"], "C17-m4": ["C18"], "C20-m4": ["C18"], "C05-m6": ["C14"], "C08-m5": ["C19"], "C12-m5": ["C02"], "C05-m8": ["C15"], "C09-m8": ["C18"], "C18-m7": ["C10"]}


def section(readme, *names):
    for n in names:
        m = re.search(r"(?ms)^## %s[^\n]*\n(.*?)(?=^## |\Z)" % re.escape(n), readme)
        if m:
            return re.sub(r"\s+\n", "\n", m.group(1)).strip()
    return ""


def main():
    ids = sys.argv[1:] or sorted(d for d in os.listdir(SEEDED) if os.path.isdir(os.path.join(SEEDED, d)))
    head = subprocess.check_output(["git", "-C", "/repo", "log", "-1", "--format=%h"]).decode().strip()
    for sid in ids:
        d = os.path.join(SEEDED, sid)
        prop = sid.split("-")[0]
        readme = open(os.path.join(d, "README.md")).read()
        title = readme.split("\n")[0].lstrip("# ").strip()
        t0 = time.time()
        conf = subprocess.run([os.path.join(VERIF, "lib", "seedconfirm.sh"), d, sid], stdout=subprocess.PIPE, stderr=subprocess.STDOUT).stdout.decode()
        m = re.search(r"demo-clean=(\d+) tests-pass=(\d*) tests-fail=(\d*) demo-mutant=(\d+)", conf)
        confirmed = bool(m) and m.group(1) == "0" and m.group(2) == "16" and m.group(3) == "0" and m.group(4) != "0"
        checks = [prop] + EXTRA.get(sid, [])
        run = subprocess.run([os.path.join(VERIF, "lib", "seedrun.sh"), d] + checks, stdout=subprocess.PIPE, stderr=subprocess.STDOUT).stdout.decode()
        caught = []
        for line in run.split("\n"):
            mm = re.match(r"(\S+) (\S+): (CAUGHT|MISSED) \(rc=(\d+), (\d+)s\)\s*(.*)", line)
            if mm:
                caught.append({"check": mm.group(2), "tier": "quick", "result": mm.group(3).lower(), "seconds": int(mm.group(5)),
                               "first_message": mm.group(6).replace("[check]", "").strip()[:300]})
        meta = {
            "id": sid,
            "property": prop,
            "title": title,
            "files_touched": sorted(set(re.findall(r"(?m)^diff --git a/(\S+)", open(os.path.join(d, "patch.diff")).read()))),
            "needs_to_manifest": section(readme, "What is needed for it to manifest", "What is needed to trigger it")[:3000],
            "origin": "written by a fresh sub-agent that was given only the text of property %s and its own scratch worktree of /repo "
                      "(nothing from /verif); patch.diff, run.sh/demo and README.md are its deliverables" % prop,
            "what_i_ran": [
                "lib/seedconfirm.sh seeded/%s %s   # scratch worktree of /repo %s: run.sh on the clean tree, git apply patch.diff, make check, run.sh again" % (sid, sid, head),
                "lib/seedrun.sh seeded/%s %s   # ./check <id> --tier quick with VERIF_REPO=<scratch worktree with the patch>" % (sid, " ".join(checks)),
            ],
            "confirmation": {"repo_head": head, "raw": conf.strip().split("\n")[-1],
                             "demo_passes_on_clean_tree": bool(m) and m.group(1) == "0",
                             "existing_tests_pass_with_patch": bool(m) and m.group(2) == "16" and m.group(3) == "0",
                             "demo_fails_with_patch": bool(m) and m.group(4) != "0",
                             "confirmed": confirmed},
            "checks": caught,
            "caught_by": [c["check"] for c in caught if c["result"] == "caught"],
        }
        json.dump(meta, open(os.path.join(d, "meta.json"), "w"), indent=1)
        print("%s confirmed=%s caught_by=%s (%.0fs) %s" % (sid, confirmed, meta["caught_by"], time.time() - t0, "" if confirmed else conf.strip()[-200:]), flush=True)


if __name__ == "__main__":
    main()
