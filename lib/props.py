"""Per-property configuration of the driver: engine, source TU, budgets, the stated
non-triviality rule, claimed level.  (cases per worker, search budget in seconds)"""

HOOK_COMMITS = ["81c398d"]
NOT_APPLICABLE = {}

PROPS = {
    "C01": {
        "src": "c01", "engine": "rc", "hang_seconds": 240, "level": "exploration",
        "technique": "property-based testing (rapidcheck) against a reference matcher written from the manual",
        "level_text": ("Generated (declaration, buffer) pairs are scanned by the real engine under ASan and the full "
                       "per-string match list (offset, length, xor key, order) is compared with a naive matcher "
                       "derived from the documentation; buffers are built from the pattern's own variants, "
                       "near-misses, overlaps and delimiters. Exploration, not proof: bounded by case count."),
        "level_note": ("Trusts the reference matcher (self-checked against hand cases), the shim and the assumptions "
                       "listed in the evidence file; patterns <= 200 bytes, buffers <= 4 KiB, base64 forms < 1024 bytes."),
        "quick": (6000, 45), "thorough": (150000, 600),
        "floor": 200,
        "rule": ("case = 1-4 generated text-string declarations (pattern 1-200 bytes over all 256 values, "
                 "legal modifier set incl. xor ranges and base64 alphabets) + 1-3 buffers (<=4 KiB) assembled "
                 "from instances / near-misses / self-overlaps of the declared strings; oracle = naive "
                 "matcher written from the manual. Non-trivial: the model expects >=1 occurrence AND the "
                 "buffer holds >=1 near-miss, self-overlap, instance at offset 0 / at the last byte or an "
                 "alphanumeric delimiter; distinct by hash of (rule text, buffers)."),
        "assumptions": [
            "wide fullword delimiter = 2-byte unit with zero high byte (tests/test-rules.c)",
            "xor fullword judged on raw file bytes (manual: equivalent to one fullword string per key)",
            "when an ascii and a wide variant coincide at one offset either length is accepted",
        ],
    },
    "C02": {
        "src": "c02", "engine": "rc", "hang_seconds": 240, "level": "exploration",
        "technique": "property-based testing (rapidcheck) against a set-semantics reference matcher over the hex-string AST",
        "level_text": ("Generated hex-string ASTs (bytes, nibble masks, negations, jumps on both sides of the 200-byte "
                       "chaining threshold, nested alternatives) are printed, compiled and scanned over buffers sampled "
                       "from the pattern itself (gaps at/around their bounds, partial instances as extra heads/tails); the "
                       "reported offsets must equal the model's and each length must be one the pattern can match there."),
        "level_note": ("Trusts the reference matcher and the shim; unchained pieces are kept below the engine's 1024-byte "
                       "verification window, buffers <= 4 KiB; exploration bounded by case count."),
        "quick": (4000, 45), "thorough": (100000, 600),
        "floor": 200,
        "rule": ("case = one generated hex string (<= ~30 tokens, alternatives nested to depth 3, jumps [n] [n-m] [n-] [-] "
                 "around 0..1200 incl. 198..202) + 1-2 buffers (<= 4 KiB) built from samples of the pattern, partial "
                 "samples, filler from the pattern's byte set and long single-byte runs. Non-trivial: the model expects "
                 ">= 1 match AND the pattern contains a mask, negation, wildcard, jump or alternation; distinct by hash "
                 "of (rule text, buffers)."),
        "assumptions": ["a jump matches any bytes, newline included (hex strings are dot-all)",
                        "for variable-length patterns any satisfying length is accepted at an offset"],
    },
    "C03": {
        "src": "c03", "engine": "rc", "hang_seconds": 240, "level": "exploration",
        "technique": "property-based testing (rapidcheck) against a set-semantics reference regexp matcher; MUST/MAY bounds for fullword",
        "level_text": ("Generated regexp ASTs (all node kinds of the manual: literals, classes, dot, groups, alternation incl. "
                       "empty alternative, greedy or lazy * + ? {n} {n,} {,m} {n,m}, anchors, word boundaries, /i /s, nocase, "
                       "ascii, wide, fullword) are printed, compiled and run over buffers sampled from the expression itself; "
                       "string matches are compared with the model (offset set, length membership) and the `matches` "
                       "operator with existence of a match anywhere in the operand."),
        "level_note": ("Trusts the reference matcher and its stated assumptions (wide = 2-byte units, case-insensitive class "
                       "membership); buffers < 1024 bytes as the property states; regexps <= 14 nodes, repeat bounds <= 6 "
                       "(one large .{n,m}); cases hitting documented regexp size/fiber limits are discarded and counted."),
        "quick": (5000, 45), "thorough": (150000, 600),
        "floor": 200,
        "rule": ("case = one generated regular expression (<= 14 AST nodes over the alphabet a b c A B 0 1 _ - space \\n "
                 "\\x00 \\xff) used either as a string declaration with generated modifiers and 1-2 buffers (< 1024 bytes) "
                 "sampled from the expression (matching text, near misses, word / non-word delimiters, ascii or wide), or "
                 "as the right operand of `matches` with 1-4 generated operands. Non-trivial: the model expects >= 1 match "
                 "AND the expression contains a quantifier or an alternation; distinct by hash of (rule text, buffers)."),
        "assumptions": [
            "wide regexps consume 2-byte units whose second byte is zero; \\b looks at 2-byte units",
            "case-insensitive class membership: a byte is in the class if it or its other-case form is listed; negation applied afterwards",
            "with fullword, an offset must be reported only if every length the expression can match there is a full word; it may be reported if some length is",
            "greedy vs lazy never changes the set of offsets; any matchable length is accepted as the reported length",
        ],
    },
    "C04": {
        "src": "c04", "engine": "rc", "hang_seconds": 240, "level": "exploration",
        "technique": "property-based testing (rapidcheck): generated typed condition trees vs a reference interpreter written from the manual",
        "level_text": ("Typed expression trees over every operator family (string presence/count/offset/length, at/in, of and "
                       "for..of / for..in with every quantifier form, integer/float arithmetic, bitwise, shifts, comparisons, "
                       "string operators, intN/uintN readers, filesize, rule references, externals, defined/not/and/or, "
                       "deliberately undefined operands) are printed with minimal parentheses from the manual's precedence "
                       "table, compiled and evaluated by the engine; each rule's verdict is compared with a reference "
                       "interpreter that works on match lists computed by the (C01-checked) text-string model; every buffer is scanned a second time with "
                       "SCAN_FLAGS_FAST_MODE, which must give the verdicts of the normal scan."),
        "level_note": ("Trusts the reference interpreter and its stated assumptions; depth <= 6, <= 4 nested loops, loop ranges "
                       "kept small by construction, constants kept inside the compile-time checks (rejections are counted "
                       "as discards); `matches` is covered by C03, module objects by C06/C14."),
        "quick": (6000, 45), "thorough": (200000, 600),
        "floor": 500,
        "rule": ("case = 1-4 rules over 0-3 plain text strings, each condition a generated typed expression tree (depth 1-6) "
                 "printed with minimal parentheses, evaluated on 1-3 buffers (<= 400 bytes) built from the strings' instances. "
                 "Non-trivial: the tree has >= 3 operators on >= 2 precedence levels, or a loop, or a deliberately undefined "
                 "operand; distinct by hash of (rule text, buffers)."),
        "assumptions": [
            "a for loop with zero iterations is false for every quantifier (exec.c OP_ITER_END comment)",
            "a run-time quantifier equal to 0 means 'exactly none' in for loops as documented for `of`",
            "shift by >= 64 gives 0, by a negative amount undefined, >> is arithmetic (exec.c)",
            "float equality uses the engine's DBL_EPSILON tolerance; string ordering is bytewise with length tie-break",
        ],
    },
    "C05": {
        "src": "c05", "engine": "rc", "hang_seconds": 240, "level": "exploration",
        "technique": "differential property-based testing (rapidcheck): the same rule compiled in different company / order / source distribution must give identical matches",
        "level_text": ("Generated rule sets (text, hex and regexp strings built around shared byte material so that atoms, "
                       "automaton prefixes/suffixes and pooled literals coincide; namespaces; global/private rules; rule "
                       "references; imports) are compiled as a whole and in four variants - the target rule with only its "
                       "reference closure, a reference-respecting permutation, a prefix of the set, and the same namespace "
                       "text cut into several add_string/add_bytes/add_file/add_fd calls and nested includes - and every "
                       "rule's verdict and per-string match list must be identical on every buffer. No model is involved."),
        "level_note": ("Trusts only the shim; global rules of a namespace are always kept together (the property excludes "
                       "adding one); rule sets <= 10 rules / 40 strings in quick tier; exploration bounded by case count."),
        "quick": (1500, 45), "thorough": (60000, 600),
        "floor": 100,
        "rule": ("case = generated rule set of 1-10 rules in 1-3 namespaces (strings share 1-4 pooled byte sequences) + "
                 "1-3 buffers built from the strings' instances; 4 variant compilations per case. Non-trivial: >= 2 rules, "
                 "the target rule has strings, other rules have strings too (shared material) and the target has >= 1 "
                 "string match on >= 1 buffer; distinct by hash of (all rule text, buffers, variant choices)."),
        "assumptions": ["identical match lists are required including reported lengths of variable-length strings"],
    },
    "C08": {
        "src": "c08", "engine": "rc", "hang_seconds": 240, "level": "exploration",
        "technique": "round-trip property-based testing (rapidcheck): save/load through memory streams, chunked pipes and files; byte-identity across saves, compilations and processes",
        "level_text": ("Generated rule sets covering every construct class are saved and loaded back through an exact "
                       "in-memory stream, a pipe-backed FILE* fed in generated chunk sizes (buffered and unbuffered) and "
                       "yr_rules_save/load on a file (new, or already holding longer content); the loaded rules must produce the same full trace (messages and "
                       "per-string matches) through rules-level and scanner scans, enumerate the same rules/tags/metas/"
                       "strings/externals, the original must scan identically after saving, and the bytes must be "
                       "identical across two saves, a save of the loaded rules, two compilations in one process and a "
                       "compilation in a separate process (ASLR on, and under setarch -R). Twelve fixed cases pad a rule set until the string-pool section of the saved image "
                       "is exactly 64 KiB, 128 KiB, 20 KiB or 7 KiB (and one byte either side) and load it through memory, pipes fed in "
                       "64 KiB / 4 KiB / 1000-byte / uneven chunks and a file."),
        "level_note": ("Trusts the shim; the cross-process comparison runs on ~4% of the cases (a helper process per case); "
                       "string externals redefined at rules level are exercised only by the known-finding fixed case."),
        "quick": (1200, 45), "thorough": (50000, 600),
        "floor": 50,
        "rule": ("case = generated rule set (1-8 rules, 1-3 namespaces, text/hex/regexp strings incl. chained ones, loops, "
                 "imports, four external types, tags, metas) + 1-3 buffers + a load path (exact stream / chunked pipe / "
                 "unbuffered chunked pipe / file) + optional rules-level redefinition of int/float/bool externals before "
                 "saving. Non-trivial: >= 3 construct classes among {text, hex, regexp, chained, several namespaces, "
                 "imports, loops} and >= 1 rule matches >= 1 buffer; distinct by hash of (rule text, buffers, options)."),
        "assumptions": ["a stream delivers data with fread semantics (full count unless the data ends); chunking happens underneath"],
    },
    "C19": {
        "src": "c19", "engine": "rc", "hang_seconds": 240, "level": "exploration",
        "technique": "configuration-differential property-based testing (rapidcheck) using the YARA_VERIF arena-capacity hook under ASan",
        "level_text": ("Each generated rule set is compiled with the stock 1 MiB initial arena capacity and with 2-5 "
                       "capacities drawn from {1,2,3,5,8,...,65536} and random values, which moves every buffer growth "
                       "(always a relocation under ASan) over every position of the compilation; the serialised image must "
                       "be byte-identical and the full scan traces equal, and ASan reports any stale reference as a "
                       "use-after-free during compilation."),
        "level_note": ("Trusts the hook (one #ifdef block) and ASan's realloc-always-moves behaviour; rule sets up to 16 "
                       "rules (40 in the thorough tier); growth of the stock 1 MiB buffers themselves is not reached."),
        "quick": (1000, 45), "thorough": (40000, 600),
        "floor": 50,
        "rule": ("case = generated rule set + 1-2 buffers + 2-5 initial capacities. Non-trivial: some buffer grew >= 3 "
                 "times during a compilation (counted from the arena's final sizes) and the set has >= 2 string kinds; "
                 "distinct by hash of (rule text, buffers, capacities)."),
        "assumptions": [],
    },
    "C12": {
        "src": "c12", "engine": "rc", "hang_seconds": 240, "level": "exploration",
        "technique": "metamorphic property-based testing (rapidcheck): verdict-preserving rewrites of rules, scan flags, atom tables and external redefinitions",
        "level_text": ("For a generated rule (text/hex/regexp strings, condition from the C04 grammar) the check builds "
                       "twins that the manual says are equivalent - `(C) or filesize < 0`, `(C) and filesize >= 0`, integer "
                       "literals rewritten as equal-valued constant expressions over + - * \\ % & | ^ ~ << >> and unary "
                       "minus or in another radix, literals replaced by external variables, externals compiled with other "
                       "values and redefined at rules or scanner level before the scan - and scans in normal and fast "
                       "mode and with a generated atom quality table; verdicts (and match offsets for the atom table, "
                       "compile success for constant twins) must agree."),
        "level_note": ("Trusts the shim; constants stay far from 64-bit overflow so the documented overflow rejection is "
                       "not what decides compile success; variable-length strings are compared on offsets only under "
                       "a different atom table."),
        "quick": (2500, 45), "thorough": (80000, 600),
        "floor": 100,
        "rule": ("case = one generated rule + 5 twins + 2-4 buffers + an atom quality table over every <= 4-byte window of "
                 "the strings. Non-trivial: >= 1 integer literal was rewritten and the base verdict is true on >= 1 buffer "
                 "and false on >= 1 buffer; distinct by hash of (all rule text, externals, buffers)."),
        "assumptions": [],
    },
    "C20": {
        "src": "c20", "engine": "rc", "hang_seconds": 240, "level": "exploration", "leaks": True,
        "technique": "stateful / model-based property testing (rapidcheck): generated define/create/scan histories vs a three-level environment model",
        "level_text": ("Generated histories of external-variable definitions at compiler, rule-set and scanner level (all four "
                       "types; valid, duplicate, unknown identifier, incompatible type), scanner creations, scans and scanner "
                       "destructions are run against the library and against a three-level environment model; after every "
                       "scan 39 exposing rules (strings used as booleans, equality with every domain value, arithmetic, `at`, `in`, `#a in`, `@a[v]`, "
                       "`v of`, uintN(v), loop bounds, string operators, float comparisons) must be true exactly when the "
                       "model's effective value says so; rejected definitions must return the documented code and change "
                       "nothing; LeakSanitizer runs after every history."),
        "level_note": ("Trusts the model (a few lines) and the shim; integer<->boolean cross-type definitions are not "
                       "generated (accepted at scanner level, rejected at rules level, manual silent); value domains are small "
                       "fixed sets."),
        "quick": (1500, 45), "thorough": (60000, 600),
        "floor": 100,
        "rule": ("case = one history: 4 compile-time definitions (+ duplicates), then 3-14 operations among rules.define, "
                 "scanner.create, scanner.define, scan through a scanner, rules-level scan, scanner.destroy, and a final "
                 "sweep scanning every live scanner. Non-trivial: definitions at >= 2 levels, >= 1 rejected definition and "
                 ">= 2 scans; distinct by hash of the operation log."),
        "assumptions": ["a run-time `v of (...)` with v == 0 means none; negative v means 'at least v' (always true)"],
    },
    "C11": {
        "src": "c11", "engine": "rc", "hang_seconds": 240, "level": "exploration",
        "technique": "model-based property testing (rapidcheck) of the callback message sequence, exhaustive over the interruption index and reply",
        "level_text": ("For generated rule sets (plain / private / global / global private rules over 1-3, sometimes 9-12, namespaces, rule "
                       "references, 0-3 imports per rule incl. the same module from several namespaces, conditions from the "
                       "C04 grammar) and each of the four report-flag settings, the exact expected message sequence "
                       "(import/imported once per module, one message per non-private rule in definition order with the "
                       "global-rule semantics, finished last) is computed from the reference interpreter and compared with "
                       "the engine's, for the uninterrupted scan and for ABORT and ERROR replies at every message index k; the scanner of a case has scanned another buffer before."),
        "level_note": ("Trusts the C04 interpreter for the truth of conditions (cases touching its two known findings are "
                       "discarded); ABORT in reply to a module message and any reply to the finished message are accepted "
                       "as the engine behaves (the property is silent)."),
        "quick": (1200, 45), "thorough": (50000, 600),
        "floor": 50,
        "rule": ("case = rule set of 1-12 rules + a buffer + a flag setting; 2*(messages+1)+1 scans per case (every k, both "
                 "replies, rules-level and scanner-level calls alternating). Non-trivial: the set has a global and a "
                 "private rule, >= 2 namespaces or >= 1 import, and the script interrupts at k > 1; distinct by hash of "
                 "(rule text, flags, buffer)."),
        "assumptions": ["a rule reference evaluates to the referenced rule's own condition (exec.c OP_PUSH_RULE)"],
    },
    "C10": {
        "src": "c10", "engine": "rc", "level": "exploration", "leaks": True,
        "technique": "stateful differential property testing (rapidcheck): every scan of a generated history on one scanner vs the same scan on a fresh scanner",
        "level_text": ("One long-lived scanner runs a generated history of scans over PE, ELF, Mach-O, empty and text buffers "
                       "through mem / file / fd / block-iterator entry points (iterators with and without a file_size function) with callback scripts (ABORT or ERROR at the "
                       "k-th message, not-ready suspensions that are resumed or abandoned), interleaved with set_flags, "
                       "set_timeout and scanner-level definitions; after every scan the full trace (messages, per-string "
                       "matches, return code) must equal that of the same scan on a freshly created scanner with the same "
                       "settings. The rule set spans 14 namespaces with global gates that depend on the kind of buffer; rules expose entrypoint, filesize, pe/elf/macho fields, math/hash values, string counts, "
                       "offsets and lengths. The scanner is destroyed after the history and LeakSanitizer is run. "
                       "Six fixed histories add the process-memory entry point: a scanner whose flags and timeout are set once scans an "
                       "idle child process through yr_scanner_scan_proc (ended normally, by ABORT, by ERROR early or late, in fast mode, "
                       "or against a pid that does not exist) and then PE and ELF samples from memory and from a file, each compared "
                       "with a fresh scanner."),
        "level_note": ("Trusts the shim; scans ending in ERROR_TOO_MANY_RE_FIBERS (9% of scans) and in a muted string "
                       "after 1,000,000 matches (3%, about a second each) are part of the histories; timeouts are exercised "
                       "by C15; histories of 3-9 operations; process scans appear only in the six fixed histories (generated rules "
                       "over a process image take minutes under ASan)."),
        "quick": (800, 45), "thorough": (40000, 600),
        "floor": 50,
        "rule": ("case = fixed 20-rule set + 1-4 generated rules, a history of 3-9 operations (75% scans). Non-trivial: a "
                 "compared scan is preceded by >= 2 scans over >= 2 buffer kinds with >= 1 abnormal ending (callback "
                 "abort/error or not-ready suspension); distinct by hash of (generated rules, operation list)."),
        "assumptions": [],
    },
    "C13": {
        "src": "c13", "engine": "rc", "level": "exploration",
        "technique": "differential property testing (rapidcheck) across the seven scan entry points, plus enumeration of not-ready schedules over generated block partitions",
        "level_text": ("The same bytes (empty, 1, 4095, 4096, 4097, 8192 bytes, PE and ELF samples, generated text) are scanned "
                       "through yr_rules_scan_mem/file/fd/mem_blocks and yr_scanner_scan_mem/file/fd/mem_blocks with a "
                       "single-block iterator and the full traces must be identical; then the buffer is cut into 1-5 blocks "
                       "and scanned with an iterator that reports ERROR_BLOCK_NOT_READY according to a schedule - all "
                       "2^(blocks+1)-1 schedules of the first pass for <= 4 blocks plus random ones with repeated "
                       "not-readies - and the final trace and return code must equal those of the uninterrupted scan of the "
                       "same blocks, with no rule message emitted by an interrupted call."),
        "level_note": ("Trusts the shim's iterator; not-ready reports during the re-iteration done by rule evaluation "
                       "(modules, uintN readers) are outside the iterator contract of capi.rst and are not generated; "
                       "CALLBACK_MSG_TOO_SLOW_SCANNING lines are ignored."),
        "quick": (600, 45), "thorough": (30000, 600),
        "floor": 50,
        "rule": ("case = fixed 16-rule set + 1-5 generated rules, one buffer, 7 entry-point scans, one block partition and "
                 "up to 35 not-ready schedules. Non-trivial: >= 2 blocks, a not-ready on one of the last two iterator steps "
                 "(after earlier blocks were scanned) and >= 1 string match in the scan; distinct by hash of (generated "
                 "rules, buffer, partition)."),
        "assumptions": [],
    },
    "C14": {
        "src": "c14", "engine": "rc", "hang_seconds": 240, "level": "exploration",
        "technique": "property-based testing (rapidcheck) against independent reference implementations (OpenSSL digests, bitwise CRC-32, long-double statistics, hand-written numeral table)",
        "level_text": ("For generated buffers (0-24 bytes with ranges drawn densely around the borders, and up to 5000 bytes "
                       "in 1-3 contiguous blocks) a rule set of 8-60 shuffled requests - hash.md5/sha1/sha256/crc32/"
                       "checksum32 in range and string form, repeated and cross-algorithm requests on the same range (digest "
                       "cache), math.entropy/mean/deviation/count/percentage/mode/serial_correlation/monte_carlo_pi, "
                       "min/max/abs/to_number/to_string/in_range, string.to_int and string.length - is scanned and every "
                       "request rule (`f(args) == expected`, a tolerance interval for floats, or `not defined f(args)`) must "
                       "match."),
        "level_note": ("Trusts the reference implementations in props/c14.cpp; statistics of an empty range are not judged; "
                       "serial correlation and Monte Carlo are checked on single-block data only (their definitions are per "
                       "buffer); float results are compared with a relative tolerance (1e-9, 1e-6 for entropy / serial "
                       "correlation, 1e-5 for percentage which the module computes in float)."),
        "quick": (1500, 40), "thorough": (60000, 600),
        "floor": 100,
        "rule": ("case = a buffer, a block partition and 8-60 requests, one rule each. Non-trivial: >= 3 requests address "
                 "a non-empty range that touches or passes the end of the buffer or contains a byte >= 0x80 (or are "
                 "string.to_int / string.length cases); distinct by hash of (request rules, buffer, partition)."),
        "assumptions": ["math.mode may return any most-frequent byte", "an offset equal to the buffer size lies outside the buffer (undefined)"],
    },
    "C06": {
        "src": "c06", "engine": "fuzz", "engine_name": "libfuzzer-runner", "level": "exploration", "leaks": True,
        "variants": ["fz"],
        "technique": "coverage-guided fuzzing (libFuzzer, fork mode) with a field-aware custom mutator; harness rules generated from the module declarations; ASan/UBSan/LSan + in-target oracle",
        "level_text": ("Five concurrent libFuzzer campaigns (pe+dotnet, elf, macho, dex, generic) start from the repository's "
                       "fuzz corpora and test samples and mutate them with libFuzzer's mutators plus a structure-aware one "
                       "(boundary values written into header / table fields found through the format's own offsets, "
                       "truncations, composites that put a table at the very end of the data while raising a count next to it; the PE campaign also starts from a systematic set of such variants of every seed's data directories). Every input is scanned with SCAN_FLAGS_NO_TRYCATCH by rules that are generated from "
                       "the module declaration tree of the tree under test and read every field, iterate every array and "
                       "dictionary, index at 0 and far beyond, and call every function prototype. Oracle: no ASan/UBSan/"
                       "LSan report, no assertion, the scan returns success or a documented error within 30 s, and all "
                       "always-true harness rules are reported."),
        "level_note": ("Exploration bounded by time; MSan is not usable here, so uninitialised reads are only seen through "
                       "their ASan-visible consequences; timeouts / OOMs / slow units reported by libFuzzer are counted as "
                       "inconclusive, only reproducible crash-/leak- artifacts count."),
        "quick": (0, 60), "thorough": (0, 900),
        "floor": 20,
        "fuzz_targets": [
            {"name": "pe", "env": {"VERIF_FAMILY": "pe"}, "seed_gen": "pe_pairs", "seeds": [
                "{repo}/tests/oss-fuzz/pe_fuzzer_corpus/*", "{repo}/tests/oss-fuzz/dotnet_fuzzer_corpus/*",
                "{repo}/tests/data/tiny*", "{repo}/tests/data/pe_*", "{repo}/tests/data/*.dll", "{repo}/tests/data/*.efi",
                "{repo}/tests/data/weird_rich", "{repo}/tests/data/bad_dotnet_pe", "{repo}/tests/data/0*", "{repo}/tests/data/3*",
                "{repo}/tests/data/6*", "{repo}/tests/data/7*", "{repo}/tests/data/c*", "{repo}/tests/data/e*"], "max_len": 300000},
            {"name": "elf", "env": {"VERIF_FAMILY": "elf"}, "seed_gen": "elf_fields", "seeds": [
                "{repo}/tests/oss-fuzz/elf_fuzzer_corpus/*", "{repo}/tests/data/elf_with_imports"], "max_len": 100000},
            {"name": "macho", "env": {"VERIF_FAMILY": "macho"}, "seeds": [
                "{repo}/tests/oss-fuzz/macho_fuzzer_corpus/*", "{repo}/tests/data/tiny-macho", "{repo}/tests/data/tiny-universal"],
             "max_len": 100000},
            {"name": "dex", "env": {"VERIF_FAMILY": "dex"}, "seeds": ["{repo}/tests/oss-fuzz/dex_fuzzer_corpus/*"], "max_len": 100000},
            {"name": "generic", "env": {"VERIF_FAMILY": "generic"}, "seeds": [
                "{repo}/tests/data/x.txt", "{repo}/tests/data/tiny", "{repo}/tests/data/tiny-macho",
                "{repo}/tests/data/elf_with_imports", "{repo}/tests/oss-fuzz/dex_fuzzer_corpus/*"], "max_len": 20000},
        ],
        "rule": ("case = one input executed by a campaign (seed corpus = tests/oss-fuzz/*_corpus + tests/data samples). "
                 "Non-trivial: the module's own validity gate passed (pe.is_pe / dotnet.is_dotnet / elf.type defined / "
                 "macho magic defined / dex.header.magic defined) AND the first 256 bytes differ from every seed; distinct "
                 "by hash of the input."),
        "assumptions": [],
    },
    "C07": {
        "src": "c07", "engine": "fuzz", "engine_name": "libfuzzer-runner", "level": "exploration", "leaks": True,
        "variants": ["fz"],
        "technique": "coverage-guided fuzzing (libFuzzer, fork mode) of the rule compiler with a token-level grammar-aware mutator and an in-target diagnostics / canary oracle",
        "level_text": ("libFuzzer compiles every input through a rotating entry point (add_string / add_bytes / add_file / "
                       "add_fd), optionally with externals, strict escapes and an include callback that serves slices of "
                       "the input, the input itself, a self-including file and an 18-deep include chain. Seeds are every rule "
                       "text found in the repository's tests, documentation and rules_fuzzer_corpus; a custom mutator works "
                       "on tokens (delete / duplicate / swap / replace / insert keywords, truncate after token k, blow "
                       "identifiers, strings, regexps and integers up to the documented limits, nest loops and parentheses, "
                       "break hex strings and regexps from inside). Oracle in the target: no ASan/UBSan/LSan report or "
                       "assertion; 0 errors => no ERROR callback, get_rules succeeds and the rules scan a fixed buffer; "
                       "n > 0 errors => exactly n ERROR callbacks, each with a message and a line number >= 0; the compiler "
                       "is destroyed; every 32 inputs a canary rule set is compiled and scanned and must give its known "
                       "trace."),
        "level_note": ("Exploration bounded by time; inputs <= 8 KiB; libFuzzer timeouts (25 s) are confirmed three times "
                       "single-threaded before they count as a hang."),
        "quick": (0, 60), "thorough": (0, 900),
        "floor": 50,
        "fuzz_targets": [
            {"name": "rules", "seed_gen": "rules", "dict": "{repo}/tests/oss-fuzz/rules_fuzzer.dict", "max_len": 8192, "timeout": 25},
        ],
        "rule": ("case = one input (option byte + rule text). Non-trivial: the text contains a rule skeleton (`rule`, `{`, "
                 "`condition`) and compilation reports >= 1 error, i.e. an error raised inside a rule; distinct by hash of "
                 "the input. The class histogram lists how many inputs ended in each error code."),
        "assumptions": [],
    },
    "C17": {
        "src": "c17", "engine": "rc", "level": "fault_enumeration", "needs_cli": True,
        "technique": "fault enumeration over generated inputs: every prefix and every single-field header/table rewrite of compiled images of rapidcheck-generated rule sets, loaded in forked children",
        "level_text": ("For each generated rule set the compiled image is cut at EVERY byte position (images <= 64 KiB; above "
                       "that all section and relocation-entry boundaries +-1/2 plus 2000 sampled points) and every single "
                       "field of its header and buffer table is rewritten (each magic byte, all 255 other versions and "
                       "buffer counts, sizes and offsets set to 0, 1, size+-1, size/2, size+8, 2^31, 2^32-1, 2^64-1); each "
                       "damaged image is loaded through an in-memory stream or a chunked pipe in a forked child. Oracle: "
                       "the load returns an error and leaves no rule set; a load that succeeds must give rules whose full "
                       "scan traces equal the intact rules' (a successful load is accepted only for a rewrite of the table's unused offset field); "
                       "a crash / assertion / sanitizer report in the child is a violation; the enumeration "
                       "resumes behind a crashing point. A few cut points per file are also given to the ASan-built `yara -C`, with and without -d: it must print a diagnostic and exit non-zero."),
        "level_note": ("Exhaustive per generated file for files <= 64 KiB; the set of files is what rapidcheck generates in "
                       "the budget; damage inside the bodies or the relocation table other than truncation is outside the "
                       "property."),
        "quick": (40, 45), "thorough": (2500, 600),
        "floor": 50,
        "rule": ("case = one generated rule set (1-5 rules); its image yields ~5-15 thousand damage points, all evaluated. "
                 "Non-trivial unit = a distinct (file, region class) pair, region classes being header, table entry i, body "
                 "of buffer i, relocation j, magic, version, buffer count, size of entry i, offset of entry i; "
                 "`evaluations` counts damage points."),
        "assumptions": [],
    },
    "C16": {
        "src": "c16", "engine": "rc", "level": "fault_enumeration", "leaks": True, "parallel_fixed": True, "fixed_timeout": 3000,
        "extra_link": ["-Wl,--wrap=malloc", "-Wl,--wrap=calloc", "-Wl,--wrap=realloc", "-Wl,--wrap=strdup", "-Wl,--wrap=strndup"],
        "replay_timeout": 900,
        "technique": "fault enumeration: link-time allocator interposition, every k-th allocation of every scenario fails (alone and with all later ones) in a forked child under ASan + LeakSanitizer; scenario contents partly generated by rapidcheck",
        "level_text": ("Fourteen fixed scenarios cover the API groups (initialise/finalise; compiling text, hex, regexp, base64, xor, "
                       "chained strings, loops, includes, namespaces, externals, atom table through add_string/bytes/file/fd; "
                       "get_rules; save/load through a stream and a file; rules-level and scanner-level definitions; scans "
                       "through mem/file/fd/block iterators with pe, dotnet, elf, macho, dex, hash, math, string, time and "
                       "console and tests on matching samples; a 1100-token hex string; base64 of wide strings) and rapidcheck adds generated compile+scan scenarios. For a scenario "
                       "with N allocations, for EVERY k <= N the k-th malloc/calloc/realloc/strdup/strndup made by the code "
                       "under test (flex/bison included) returns NULL, and again with all allocations from k on failing; "
                       "each fault point runs in a forked child. Oracle: no crash / assertion / sanitizer report; every call "
                       "returns ERROR_INSUFFICIENT_MEMORY or a reported compile error, or completes with the fault-free "
                       "result; everything can be destroyed; LeakSanitizer finds nothing; a canary compile+scan then "
                       "succeeds in the same process."),
        "level_note": ("Exhaustive over k per scenario; the scenario set is finite; allocations inside libc / libcrypto "
                       "(shared objects) are not interposed; the shim's own bookkeeping allocations are suspended from "
                       "injection. Findings are keyed by root cause = kind + the first library frames requesting the "
                       "allocation."),
        "quick": (2, 30), "thorough": (40, 600),
        "floor": 30,
        "rule": ("unit = one fault point (scenario, k, mode). `evaluations` counts fault points run; a distinct non-trivial "
                 "unit is a distinct (scenario, requesting call site) pair, i.e. a distinct place in the library whose "
                 "allocation was made to fail."),
        "assumptions": [],
    },
    "C15": {
        "src": "c15", "engine": "rc", "level": "exploration",
        "replay_timeout": 300,
        "technique": "boundary-directed property testing (rapidcheck): one generator per engine limit producing L-1, L, L+1 and far-beyond inputs and configurations, with the documented outcome as oracle and a post-event canary",
        "level_text": ("Twelve generators, one per limit: identifier length (128), integer literal range incl. KB/MB/hex/octal, "
                       "loop nesting (4), strings per rule (YR_CONFIG_MAX_STRINGS_PER_RULE 1..64), include depth (16), lexer "
                       "buffer (8192), regexp repeat interval (32767) / split count (128) / code size in every position that emits a 16-bit jump, scan-time fiber limit (string regexps and `matches`, then the same scanner again), "
                       "evaluation stack (YR_CONFIG_STACK_SIZE 4..64: the overflow depth must be exact, monotone and grow with "
                       "the stack), matches per string (1,000,000 with CONTINUE / ABORT / ERROR replies; the other rule's "
                       "results must be unaffected), scan timeout (1-2 s on four rule shapes that cannot finish), match-data "
                       "size. The oracle is the documented error code (error.h / limits.h / the manual) exactly at the "
                       "boundary, ERROR_SCAN_TIMEOUT within a bounded delay, and after every event a canary compile+scan in "
                       "the same process."),
        "level_note": ("Timeliness is measured on a shared machine: later than deadline+3 s is recorded as inconclusive, only "
                       "10x the timeout + 10 s is a violation; the zero-width-assertion hang is a listed finding run under a "
                       "watchdog in a forked child."),
        "quick": (60, 50), "thorough": (3000, 600),
        "floor": 30,
        "rule": ("case = one (limit, parameters) choice. Non-trivial: the case lies within +-1..2 of a limit (or is a "
                 "timeout / match-limit event); distinct by hash of the case description."),
        "assumptions": [],
    },
    "C09": {
        "src": "c09", "engine": "rc", "level": "exploration", "config": "tsan", "variant": "tsan",
        "replay_timeout": 300,
        "technique": "property-based testing (rapidcheck) of generated multi-threaded scan plans under ThreadSanitizer, each concurrent result compared with its single-threaded reference",
        "level_text": ("libyara, the shim and the harness are built with ThreadSanitizer. rapidcheck generates a rule set (fixed "
                       "rules using the regexp VM, pe / elf / hash / math, the four external types and per-scan module data "
                       "of the `tests` module, plus generated rules), 1-32 threads and for each thread a list of scans - own "
                       "YR_SCANNER with its own external definitions or the yr_rules_scan_mem/file/fd calls, PE / ELF / text "
                       "/ empty buffers, memory-mapped file scans, report flags, callback scripts that ABORT or ERROR at the "
                       "k-th message, callbacks that yield or sleep to perturb the interleaving; all threads start together "
                       "and each plan is repeated 1-3 times; some plans drive one string over the match limit in one thread. Two hand-written concurrent cases run first (sixteen 3 s-timeout scanners on 3 MiB: a timeout after less than half the allowance of wall-clock time is a violation, an honest one under load is inconclusive; a scan over the match limit next to three threads scanning the same string). Oracle: ThreadSanitizer reports nothing (halt_on_error), and "
                       "every scan's full trace equals the trace of the same scan run alone."),
        "level_note": ("The harness does not own the thread schedule: schedules are sampled and perturbed, not enumerated; "
                       "TSan's happens-before analysis flags unsynchronised accesses that were executed even when the "
                       "harmful interleaving did not happen, but a race on a path no generated scan takes is missed; no "
                       "liveness claim."),
        "quick": (40, 50), "thorough": (1500, 600),
        "floor": 20,
        "rule": ("case = rule set + thread count + per-thread scan lists, run 1-3 times. Non-trivial: >= 2 threads whose "
                 "scan intervals overlapped in time (measured with per-thread start/end stamps) and the scans exercised "
                 ">= 2 of {regexp VM, module, external definitions, memory-mapped file, aborted scan}; distinct by hash of "
                 "(generated rules, plan)."),
        "assumptions": [],
    },
    "C18": {
        "engine": "py", "engine_name": "hypothesis-cli-runner", "script": "c18.py", "level": "exploration",
        "technique": "property-based testing (Hypothesis) of the yara / yarac binaries as subprocesses: multi-threaded directory and scan-list runs vs per-file single-threaded runs; source vs compiled rules",
        "level_text": ("Hypothesis generates directory trees (0-200 files, usually more than the 64 queue slots, PE / ELF / "
                       "Mach-O / text / xor / empty / 240 KB files, nested directories with -r), rule files drawn from 14 rules "
                       "(tags, metas, private and global rules, namespaces via ns:file, xor and regexp strings, entrypoint, "
                       "pe / elf / hash / math, externals), an option subset of -s -L -X -m -g -e -c -n -f -w -t -i -q and "
                       "thread counts from {1,2,3,4,8,16,32}. The ASan-built `yara` scans every file separately with -p 1, "
                       "then the directory three times per thread count, then a --scan-list, then `yarac` + `yara -C` with "
                       "the externals given at both stages, at yarac only, or overridden at scan time. Oracle: equal "
                       "multisets of output blocks (rule line + its string lines), exit status non-zero exactly when stderr "
                       "has an `error` line, no sanitizer report."),
        "level_note": ("Thread schedules are sampled (three repetitions per thread count), not controlled; `-l` is not "
                       "generated (a global cut-off by design); console.log rules are not generated (their output is printed "
                       "outside the output lock)."),
        "quick": (4, 7), "thorough": (16, 25),
        "floor": 2,
        "rule": ("case = one generated (tree, rules, options, thread counts, externals stage); a few hundred process "
                 "launches each; `evaluations` counts yara/yarac invocations. Non-trivial: > 64 files of >= 2 kinds, >= 2 "
                 "threads, an option printing multi-line blocks (-s/-L/-X) and >= 1 matching file; distinct by hash of the "
                 "case summary."),
        "assumptions": ["a block is a rule line plus the following lines that start with 0x"],
    },
}
