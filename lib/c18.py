#!/usr/bin/env python3
"""C18 - command-line results are independent of thread count and rule form.

Hypothesis generates a directory tree, a rule file, an option subset and thread
counts; the `yara` / `yarac` binaries built from the tree under test are run as
subprocesses.  Oracle: the multiset of output blocks of a multi-threaded
directory scan (and of a --scan-list scan) equals the union of the blocks of
single-file, single-threaded scans; `yarac` + `yara -C` prints what the source
rules print, with externals given at either stage; the exit status is non-zero
exactly when an error was reported.

Run by the driver through the tooling interpreter (python3-vt).
"""
import collections
import hashlib
import json
import os
import shutil
import subprocess
import sys
import tempfile
import time
from concurrent.futures import ThreadPoolExecutor

from hypothesis import HealthCheck, Phase, given, seed, settings
from hypothesis import strategies as st

REPO = os.environ.get("VERIF_REPO", "/repo")
YARA = os.environ["C18_YARA"]
YARAC = os.environ["C18_YARAC"]
OUT = os.environ["C18_OUT"]
TIER = os.environ.get("VERIF_TIER", "quick")
SEED = int(os.environ.get("VERIF_SEED", "1"))
MAX_EXAMPLES = int(os.environ.get("C18_EXAMPLES", "12"))
KNOWN = set(filter(None, os.environ.get("C18_KNOWN", "").split("\n")))

SIG_SCANLIST_EXIT = "C18:scan-list-with-unreadable-entry:error-printed-but-exit-status-0"

STATS = {"invocations": 0, "examples": 0, "nontrivial": set(), "classes": collections.Counter(), "samples": [],
         "known": collections.Counter()}

ENV = dict(os.environ)
ENV["ASAN_OPTIONS"] = "detect_leaks=0:exitcode=99:allocator_may_return_null=1"
ENV["UBSAN_OPTIONS"] = "exitcode=99:halt_on_error=1"

SAMPLES = {}
for name in ("tiny", "elf_with_imports", "pe_mingw", "tiny-macho"):
    p = os.path.join(REPO, "tests", "data", name)
    if os.path.exists(p):
        SAMPLES[name] = open(p, "rb").read()


class Violation(Exception):
    pass


def run(cmd, timeout=90):
    STATS["invocations"] += 1
    try:
        p = subprocess.run(cmd, env=ENV, stdout=subprocess.PIPE, stderr=subprocess.PIPE, timeout=timeout)
    except subprocess.TimeoutExpired:
        raise Violation("%s did not finish within %d s (hang)" % (" ".join(cmd[:8]), timeout))
    out = p.stdout.decode("latin-1")
    err = p.stderr.decode("latin-1")
    if p.returncode == 99 or p.returncode < 0 or "AddressSanitizer" in err or "runtime error" in err:
        raise Violation("%s died / sanitizer report (status %s):\n%s" % (" ".join(cmd[:6]), p.returncode, err[-1500:]))
    return p.returncode, out, err


FAIL_ON_WARNINGS = [False]


def reported_error(err):
    """was an error reported on stderr?  (with --fail-on-warnings a warning is one)"""
    for l in err.split("\n"):
        if l.startswith("error") or (FAIL_ON_WARNINGS[0] and l.startswith("warning")):
            return True
    return False


def blocks(out):
    """output -> list of blocks (a rule line and the string lines that follow it)"""
    res = []
    for line in out.split("\n"):
        if not line:
            continue
        if line.startswith("0x") and res:
            res[-1] += "\n" + line
        else:
            res.append(line)
    return res


RULE_POOL = [
    ("", 'rule r_text : tagA tagB { meta: author = "x" n = 3 strings: $a = "needle" $b = "NEEDLE" nocase wide condition: any of them }'),
    ("", 'rule r_xor : tagB { meta: family = "xored" score = 70 strings: $x = "secret" xor(1-255) condition: $x }'),
    ('import "pe"', 'rule r_pe : tagA { condition: pe.is_pe }'),
    ('import "elf"', 'rule r_elf { condition: defined elf.type }'),
    ("", 'rule r_ep { condition: defined entrypoint }'),
    ("", 'rule r_hex { strings: $h = { 4D 5A ?? ?? } condition: $h at 0 }'),
    ("", 'rule r_many { strings: $a = "aa" condition: #a > 3 }'),
    ("", 'rule r_empty { meta: note = "empty file" flag = true condition: filesize == 0 }'),
    ("", 'rule r_many2 { strings: $a = "go" condition: #a == 3 }'),
    ("", 'rule r_re { strings: $r = /ne+dle[0-9]?/ condition: $r }'),
    ("", 'private rule p_hidden { condition: filesize > 10 } rule r_uses_private { condition: p_hidden and filesize < 100000 }'),
    ("", 'global rule g_small { condition: filesize < 400000 }'),
    ('import "hash"', 'rule r_hash { condition: hash.md5(0, filesize) == "d41d8cd98f00b204e9800998ecf8427e" }'),
    ("", 'rule r_warn { strings: $a = "needle" condition: $a or 2 of ($a) }'),  # compiles with a warning
    ('import "math"', 'rule r_math { meta: what = "high entropy" condition: math.entropy(0, filesize) > 4.0 }'),
]

# always part of the rule set: every external type decides something
EXT_RULES = [
    ("", 'rule r_ext { condition: filesize > ext_min and ext_name == "go" }'),
    ("", 'rule r_ext_neg { condition: ext_name != "go" and filesize < 20 and ext_flag }'),
    ("", 'rule r_ext_f { condition: ext_ratio > 0.5 and filesize == 0 }'),
]

file_kind = st.sampled_from(["pe", "elf", "text", "text", "text", "empty", "large", "macho", "xor"])


@st.composite
def trees(draw):
    # mostly more files than the 64 queue slots
    n = draw(st.one_of(st.integers(0, 12), st.integers(60, 75), st.integers(65, 200), st.integers(65, 130)))
    files = []
    for i in range(n):
        kind = draw(file_kind)
        sub = draw(st.sampled_from(["", "", "", "d1", "d1/d2", "d3"]))
        files.append((kind, sub, draw(st.integers(0, 5))))
    return files


def file_content(kind, variant, idx):
    if kind == "pe":
        return SAMPLES.get("tiny" if variant % 2 else "pe_mingw", b"MZ")
    if kind == "elf":
        return SAMPLES.get("elf_with_imports", b"\x7fELF")
    if kind == "macho":
        return SAMPLES.get("tiny-macho", b"\xcf\xfa\xed\xfe")
    if kind == "empty":
        return b""
    if kind == "large":
        return (b"aa needle %d " % idx) * 20000
    if kind == "xor":
        key = 1 + (idx * 7 + variant) % 254
        return b"prefix " + bytes(c ^ key for c in b"secret") + b" suffix needle"
    parts = [b"nothing here", b"a needle in a haystack", b"NEEDLE needle n\x00e\x00e\x00d\x00l\x00e\x00", b"aa aa aa aa aa", b"go go go",
             b"needle7 needle"]
    return parts[variant % len(parts)] + (b" #%d" % idx)


@st.composite
def cases(draw):
    files = draw(trees())
    nrules = draw(st.integers(1, 6))
    idxs = draw(st.lists(st.integers(0, len(RULE_POOL) - 1), min_size=nrules, max_size=nrules, unique=True))
    two_ns = draw(st.booleans())
    opts = draw(st.lists(st.sampled_from(["-s", "-L", "-X", "-m", "-g", "-e", "-c", "-n", "-f", "-w", "-t tagA", "-i r_text", "-q", "--fail-on-warnings"]),
                         max_size=5, unique=True))
    if draw(st.integers(0, 9)) < 6 and not any(o in ("-s", "-L", "-X") for o in opts):
        opts = opts[:4] + [draw(st.sampled_from(["-s", "-L", "-X"]))]  # multi-line blocks are what the output lock protects
    threads = draw(st.lists(st.sampled_from([1, 2, 3, 4, 8, 16, 32]), min_size=1, max_size=3, unique=True))
    if max(threads) < 2 and draw(st.integers(0, 9)) < 8:
        threads = threads + [draw(st.sampled_from([2, 4, 16]))]
    ext_min = draw(st.sampled_from([0, 5, 50, 100000]))
    ext_name = draw(st.sampled_from(["go", "stop"]))
    ext_flag = draw(st.sampled_from(["true", "false"]))
    ext_ver = draw(st.sampled_from(["go", "1.2.3", "10.0.0.1", "v2", "truely", "0x10", "1e5"]))
    ext_ratio = draw(st.sampled_from(["0.25", "0.75"]))
    recursive = draw(st.booleans())
    missing_in_list = draw(st.integers(0, 9)) == 0
    return dict(files=files, rules=idxs, two_ns=two_ns, opts=opts, threads=threads, ext_min=ext_min, ext_name=ext_name,
                ext_flag=ext_flag, ext_ratio=ext_ratio, ext_ver=ext_ver, recursive=recursive, missing_in_list=missing_in_list)


def check_case(c):
    STATS["examples"] += 1
    work = tempfile.mkdtemp(prefix="verif-c18-")
    try:
        root = os.path.join(work, "tree")
        os.makedirs(root)
        paths = []
        for i, (kind, sub, variant) in enumerate(c["files"]):
            if not c["recursive"]:
                sub = ""
            d = os.path.join(root, sub)
            os.makedirs(d, exist_ok=True)
            p = os.path.join(d, "f%03d_%s" % (i, kind))
            with open(p, "wb") as f:
                f.write(file_content(kind, variant, i))
            paths.append(p)
        # rule files (one or two namespaces)
        chosen = [RULE_POOL[i] for i in c["rules"]] + EXT_RULES
        halves = [chosen] if not c["two_ns"] or len(chosen) < 2 else [chosen[:len(chosen) // 2], chosen[len(chosen) // 2:]]
        rule_args = []
        for hi, half in enumerate(halves):
            imports = sorted({imp for imp, _ in half if imp})
            text = "\n".join(imports) + "\n" + "\n".join(r for _, r in half) + "\n"
            rp = os.path.join(work, "rules%d.yar" % hi)
            with open(rp, "w") as f:
                f.write(text)
            rule_args.append(("ns%d:" % hi if len(halves) > 1 else "") + rp)
        ext = ["-d", "ext_min=%d" % c["ext_min"], "-d", "ext_name=%s" % c["ext_name"], "-d", "ext_flag=%s" % c["ext_flag"],
               "-d", "ext_ratio=%s" % c["ext_ratio"]]
        opts = []
        for o in c["opts"]:
            opts += o.split()
        base = [YARA] + opts + ext
        FAIL_ON_WARNINGS[0] = "--fail-on-warnings" in opts

        def per_file(p):
            return run(base + ["-p", "1"] + rule_args + [p])

        with ThreadPoolExecutor(12) as ex:
            singles = list(ex.map(per_file, paths))
        expected = collections.Counter()
        any_err = False
        for (rc, out, err), path in zip(singles, paths):
            if "-c" in opts and out.strip().isdigit():
                # documented difference of presentation: single-file mode prints the bare count,
                # directory mode prefixes it with the file name
                out = "%s: %s\n" % (path, out.strip())
            has_err = reported_error(err)
            any_err = any_err or has_err
            if (rc != 0) != has_err:
                raise Violation("single file scan: exit status %d but stderr %s an error:\n%s" % (rc, "reports" if has_err else "does not report", err[-500:]))
            expected.update(blocks(out))
        matching_files = sum(1 for rc, out, err in singles if out.strip())
        if FAIL_ON_WARNINGS[0] and any(rc != 0 for rc, out, err in singles):
            # the source rules have compile-time warnings and the run was told to fail on them: nothing was
            # scanned (exit status and diagnostics were checked above), so there is nothing to compare with
            STATS["classes"]["stopped by --fail-on-warnings"] += 1
            FAIL_ON_WARNINGS[0] = False
            return
        # directory scans with several thread counts, three repetitions each
        dir_args = ["-r"] if c["recursive"] else []
        for p in c["threads"]:
            for rep in range(3):
                rc, out, err = run(base + dir_args + ["-p", str(p)] + rule_args + [root])
                got = collections.Counter(blocks(out))
                if got != expected:
                    missing = list((expected - got).elements())[:3]
                    extra = list((got - expected).elements())[:3]
                    raise Violation("directory scan with -p %d (run %d) differs from the per-file scans: %d blocks expected, %d printed; "
                                    "missing e.g. %r; unexpected e.g. %r" % (p, rep, sum(expected.values()), sum(got.values()), missing, extra))
                has_err = reported_error(err)
                if (rc != 0) != has_err:
                    if has_err and rc == 0 and "error scanning " in err and SIG_SCANLIST_EXIT in KNOWN:
                        STATS["known"][SIG_SCANLIST_EXIT] += 1  # a per-file scan error: the listed finding
                    else:
                        raise Violation("directory scan -p %d: exit status %d, stderr: %s" % (p, rc, err[-300:]))
        # --scan-list
        if paths:
            lst = os.path.join(work, "list.txt")
            listed = list(paths)
            if c["missing_in_list"]:
                listed.insert(len(listed) // 2, os.path.join(root, "does-not-exist"))
            with open(lst, "w") as f:
                f.write("\n".join(listed) + "\n")
            p = c["threads"][0]
            rc, out, err = run(base + ["-p", str(p), "--scan-list"] + rule_args + [lst])
            # with -c the tool prints `<path>: 0` even for the entry it could not open; that entry is not a file
            # of the tree, only its error line and the exit status are looked at
            got = collections.Counter(b for b in blocks(out) if not b.startswith(os.path.join(root, "does-not-exist")))
            if got != expected:
                raise Violation("--scan-list with -p %d prints %d blocks, the per-file scans %d" % (p, sum(got.values()), sum(expected.values())))
            has_err = reported_error(err)
            if (rc != 0) != has_err:
                if has_err and rc == 0 and "error scanning " in err and SIG_SCANLIST_EXIT in KNOWN:
                    STATS["known"][SIG_SCANLIST_EXIT] += 1
                else:
                    raise Violation("--scan-list: exit status %d but stderr %s an error: %s" % (rc, "reports" if has_err else "does not report", err[-300:]))
        # compiled rules: yarac, then yara -C, externals at either stage
        yarc = os.path.join(work, "rules.yarc")
        for stage in ("both", "yarac-only", "scan-overrides"):
            if stage == "both":
                cext, sext = ext, ext
            elif stage == "yarac-only":
                cext, sext = ext, []
            else:
                cext = ["-d", "ext_min=%d" % (c["ext_min"] + 777), "-d", "ext_name=placeholder",
                        "-d", "ext_flag=%s" % ("false" if c["ext_flag"] == "true" else "true"), "-d", "ext_ratio=0.5"]
                sext = ext
            rc, out, err = run([YARAC] + cext + rule_args + [yarc])
            if rc != 0:
                raise Violation("yarac failed on rules that yara accepts: " + err[-400:])
            p = c["threads"][-1]
            rc, out, err = run([YARA] + opts + sext + dir_args + ["-p", str(p), "-C", yarc, root])
            got = collections.Counter(blocks(out))
            if got != expected:
                missing = list((expected - got).elements())[:3]
                extra = list((got - expected).elements())[:3]
                raise Violation("yarac + yara -C (externals: %s) prints something else than the source rules: missing e.g. %r; unexpected e.g. %r"
                                % (stage, missing, extra))
            has_err = reported_error(err)
            if (rc != 0) != has_err:
                if has_err and rc == 0 and "error scanning " in err and SIG_SCANLIST_EXIT in KNOWN:
                    STATS["known"][SIG_SCANLIST_EXIT] += 1
                else:
                    raise Violation("yara -C: exit status %d, stderr: %s" % (rc, err[-300:]))
        # everything the tool can print about a match (-s -m -g -e: strings, metas, tags, namespace), once
        # more from the source rules and from the compiled rules
        full = ["-s", "-m", "-g", "-e", "-w"]
        rc, out_src, err = run([YARA] + full + ext + dir_args + ["-p", "1"] + rule_args + [root])
        rc, out, err = run([YARAC] + ext + rule_args + [yarc])
        if rc != 0:
            raise Violation("yarac failed on rules that yara accepts: " + err[-400:])
        rc, out_bin, err = run([YARA] + full + dir_args + ["-p", "1", "-C", yarc, root])
        if collections.Counter(blocks(out_src)) != collections.Counter(blocks(out_bin)):
            a, b = collections.Counter(blocks(out_src)), collections.Counter(blocks(out_bin))
            raise Violation("yara -s -m -g -e prints something else from compiled rules than from the source rules: missing e.g. %r; unexpected e.g. %r"
                            % (list((a - b).elements())[:2], list((b - a).elements())[:2]))
        # the type of a -d definition follows its spelling (cli/common.c: integer, float with ONE dot, true/false,
        # anything else is a string); a string external then behaves like the literal
        if paths:
            ver = c["ext_ver"]
            vr = os.path.join(work, "ver.yar")
            with open(vr, "w") as f:
                f.write('rule r_ext_ver { condition: ext_ver == "%s" and ext_num == 12 and ext_f < 2.0 }\n' % ver)
            dv = ["-d", "ext_ver=%s" % ver, "-d", "ext_num=12", "-d", "ext_f=1.5"]
            rc, out, err = run([YARA] + dv + [vr, paths[0]])
            if rc != 0 or "r_ext_ver " not in out:
                raise Violation("-d ext_ver=%s -d ext_num=12 -d ext_f=1.5: the rule comparing them with \"%s\", 12 and 2.0 does not match (exit %d): %s"
                                % (ver, ver, rc, err[-300:]))
            vc = os.path.join(work, "ver.yarc")
            rc, out, err = run([YARAC, "-d", "ext_ver=placeholder", "-d", "ext_num=0", "-d", "ext_f=9.5", vr, vc])
            if rc != 0:
                raise Violation("yarac with string / integer / float placeholders failed: " + err[-300:])
            rc, out, err = run([YARA] + dv + ["-C", vc, paths[0]])
            if rc != 0 or "r_ext_ver " not in out:
                raise Violation("yara -C -d ext_ver=%s ...: the compiled rule does not match (exit %d): %s" % (ver, rc, err[-300:]))
        # statistics
        kinds = {k for k, _, _ in c["files"]}
        multi_line = any(o in ("-s", "-L", "-X") for o in c["opts"])
        nontrivial = len(paths) > 64 and len(kinds) >= 2 and max(c["threads"]) >= 2 and multi_line and matching_files >= 1
        desc = "files=%d kinds=%s rules=%s opts=%s threads=%s externals=%s recursive=%s" % (
            len(paths), sorted(kinds), [RULE_POOL[i][1].split()[1] if not RULE_POOL[i][1].startswith(("private", "global")) else RULE_POOL[i][1].split()[2]
                                        for i in c["rules"]], c["opts"], c["threads"], ext[1::2], c["recursive"])
        if nontrivial:
            STATS["nontrivial"].add(hashlib.sha1(desc.encode()).hexdigest())
            if len(STATS["samples"]) < 6:
                STATS["samples"].append(desc + " -> %d output blocks" % sum(expected.values()))
        STATS["classes"][">64 files" if len(paths) > 64 else "<=64 files"] += 1
        if multi_line:
            STATS["classes"]["multi-line blocks"] += 1
        if c["two_ns"]:
            STATS["classes"]["two namespaces"] += 1
        ext_hits = sum(1 for rc, out, err in singles if "r_ext" in out)
        if ext_hits:
            STATS["classes"]["externals decide a match"] += 1
    finally:
        shutil.rmtree(work, ignore_errors=True)


FAILURE = {}
SHRINK_BUDGET = 90 if TIER == "quick" else 400


@seed(SEED)
@settings(max_examples=MAX_EXAMPLES, database=None, deadline=None, derandomize=False, report_multiple_bugs=False,
          suppress_health_check=list(HealthCheck), phases=[Phase.generate, Phase.shrink])
@given(cases())
def prop(c):
    # time-bounded shrinking: once the budget is used up every further candidate "passes", which
    # ends the shrink phase; FAILURE keeps the smallest failing case seen
    if "t0" in FAILURE and time.time() - FAILURE["t0"] > SHRINK_BUDGET:
        return
    try:
        check_case(c)
    except Violation as v:
        FAILURE.setdefault("t0", time.time())
        FAILURE["case"] = c
        FAILURE["msg"] = str(v)
        raise


def fixed_cases():
    """deterministic reproductions (regressions, known findings); returns a message or None"""
    work = tempfile.mkdtemp(prefix="verif-c18f-")
    try:
        rp = os.path.join(work, "r.yar")
        open(rp, "w").write('rule r_text { strings: $a = "needle" condition: $a }\n')
        f1 = os.path.join(work, "f1")
        open(f1, "wb").write(b"a needle")
        lst = os.path.join(work, "list.txt")
        open(lst, "w").write(f1 + "\n" + os.path.join(work, "missing") + "\n")
        rc, out, err = run([YARA, "--scan-list", rp, lst])
        has_err = reported_error(err)
        if "r_text " + f1 not in out:
            return "scan-list with a missing entry no longer reports the readable file"
        if has_err and rc == 0:
            if SIG_SCANLIST_EXIT in KNOWN:
                STATS["known"][SIG_SCANLIST_EXIT] += 1
            else:
                return "--scan-list with a missing file prints an error but exits with status 0"
        # warnings: every combination of -w and --fail-on-warnings over rules that compile with a warning, from
        # source and from yarac output - a non-zero status always comes with a diagnostic, and whenever both
        # forms succeed they print the same
        wr = os.path.join(work, "warn.yar")
        open(wr, "w").write('rule r_warn { strings: $a = "needle" condition: $a or 2 of ($a) }\n')
        wc = os.path.join(work, "warn.yarc")
        rc, out, err = run([YARAC, wr, wc])
        if rc != 0:
            return "yarac fails on a rule that only has a warning: " + err[-200:]
        for combo in ([], ["-w"], ["--fail-on-warnings"], ["-w", "--fail-on-warnings"]):
            FAIL_ON_WARNINGS[0] = "--fail-on-warnings" in combo
            res = {}
            for form, args in (("source", [wr]), ("compiled", ["-C", wc])):
                rc, out, err = run([YARA] + combo + args + [f1])
                if (rc != 0) != reported_error(err):
                    FAIL_ON_WARNINGS[0] = False
                    return "yara %s (%s rules with a compile warning): exit status %d but stderr %s a diagnostic: %r" % (
                        " ".join(combo), form, rc, "has" if reported_error(err) else "has no", err[-200:])
                res[form] = (rc, out)
            FAIL_ON_WARNINGS[0] = False
            if res["source"][0] == 0 and res["compiled"][0] == 0 and res["source"][1] != res["compiled"][1]:
                return "yara %s prints something else from compiled rules than from source rules" % " ".join(combo)
        # single-file mode: a missing file is an error and a non-zero status
        rc, out, err = run([YARA, rp, os.path.join(work, "missing")])
        if rc == 0:
            return "scanning a missing file exits with status 0"
        # stale entry point (fixed 14221a7): a text file scanned after a PE by the same thread
        if "tiny" in SAMPLES:
            d = os.path.join(work, "d")
            os.makedirs(d)
            open(os.path.join(d, "a_pe"), "wb").write(SAMPLES["tiny"])
            for i in range(6):
                open(os.path.join(d, "b_text%d" % i), "wb").write(b"just text %d" % i)
            rp2 = os.path.join(work, "ep.yar")
            open(rp2, "w").write("rule r_ep { condition: defined entrypoint }\n")
            rc, out, err = run([YARA, "-w", "-p", "1", rp2, d])
            if [l for l in out.split("\n") if "b_text" in l]:
                return "a non-executable file scanned after a PE by the same thread has a defined entrypoint: " + out[:200]
        return None
    finally:
        shutil.rmtree(work, ignore_errors=True)


def main():
    t0 = time.time()
    if len(sys.argv) > 2 and sys.argv[1] == "--replay":
        c = json.load(open(sys.argv[2]))["case"]
        try:
            if c.get("fixed"):
                msg = fixed_cases()
                if msg:
                    raise Violation(msg)
            else:
                check_case(c)
            print("REPLAY-PASS")
            return 0
        except Violation as v:
            print("REPLAY-FAIL " + str(v))
            return 1
    rc = 0
    if os.environ.get("C18_FIXED") == "1":
        msg = fixed_cases()
        if msg:
            FAILURE["case"] = {"fixed": True}
            FAILURE["msg"] = "fixed case: " + msg
            rc = 1
    try:
        if rc == 0:
            prop()
    except Violation:
        rc = 1
    except Exception as e:  # hypothesis wraps / re-raises; FAILURE tells whether it was ours
        if "case" in FAILURE:
            rc = 1
        else:
            print("HARNESS-ERROR %r" % (e,))
            rc = 3
    res = {"invocations": STATS["invocations"], "examples": STATS["examples"], "nontrivial": len(STATS["nontrivial"]),
           "classes": dict(STATS["classes"]), "samples": STATS["samples"], "known": dict(STATS["known"]),
           "wall": time.time() - t0, "failure": FAILURE if rc == 1 else None}
    with open(OUT, "w") as f:
        json.dump(res, f)
    return rc


if __name__ == "__main__":
    sys.exit(main())
