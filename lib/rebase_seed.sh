#!/bin/sh
# Re-derive a seeded patch whose generated files (grammar.c, lexer.c, ...) no longer apply:
# apply only the hand-written hunks in a scratch worktree, regenerate with make, diff.
# usage: lib/rebase_seed.sh <seeded dir>
set -e
D=$(cd "$1" && pwd); N=$(basename "$D")
HERE=$(cd "$(dirname "$0")" && pwd)
"$HERE/mkseedtree.sh" rb-$N >/dev/null
T=/tmp/seed/rb-$N
python3 - "$D/patch.diff" "$T/src.diff" <<'PY'
import re,sys
s=open(sys.argv[1]).read()
parts=re.split(r'(?m)^(?=diff --git )',s)
GEN=('grammar.c','grammar.h','lexer.c','re_grammar.c','re_grammar.h','re_lexer.c','hex_grammar.c','hex_grammar.h','hex_lexer.c')
keep=[p for p in parts if p.startswith('diff --git') and not p.split('\n')[0].endswith(GEN)]
open(sys.argv[2],'w').write(''.join(keep))
PY
cd "$T"
git apply src.diff
rm -f src.diff
make -j16 >/dev/null 2>&1
git diff HEAD > "$D/patch.diff.new"
cd /; git -C /repo worktree remove --force "$T"; 
if [ -s "$D/patch.diff.new" ]; then mv "$D/patch.diff.new" "$D/patch.diff"; echo "$N rebased: $(grep -c '^diff --git' "$D/patch.diff") files"; else echo "$N: empty result"; rm -f "$D/patch.diff.new"; exit 1; fi
