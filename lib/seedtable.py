#!/usr/bin/env python3
"""Rewrite the table of seeded changes in DESIGN.md (section 12) from seeded/*/meta.json."""
import json, os, re
V = os.path.dirname(os.path.dirname(os.path.abspath(__file__)))
rows = []
n = caught = 0
for sid in sorted(os.listdir(os.path.join(V, "seeded"))):
    mp = os.path.join(V, "seeded", sid, "meta.json")
    if not os.path.exists(mp):
        continue
    m = json.load(open(mp))
    title = re.sub(r"^C\d\d[a-e]? ?/ ?m\d\s*[-—–:]+\s*", "", m["title"]).strip().replace("|", "\\|")
    hits = [c for c in m.get("checks", []) if c["result"] == "caught"]
    n += 1
    if hits:
        caught += 1
        own = [c for c in hits if c["check"] == m["property"]] or hits
        cell = "%s (%d s)" % (own[0]["check"], own[0]["seconds"])
    else:
        cell = "**not caught** (see its meta.json)"
    rows.append("| %s | %s | %s |" % (sid, title, cell))
p = os.path.join(V, "DESIGN.md")
lines = open(p).read().split("\n")
idx = [i for i, l in enumerate(lines) if re.match(r"^\| C\d\d-m\d ", l)]
lines[idx[0]:idx[-1] + 1] = rows
open(p, "w").write("\n".join(lines))
print("%d seeded changes, %d caught" % (n, caught))
