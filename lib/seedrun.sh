#!/bin/bash
# usage: seedrun.sh <seed-dir-with-patch.diff> <check-id>...
# Runs the named checks (quick tier) against a scratch worktree of /repo HEAD with
# the seeded change applied; /repo itself is not touched.  Prints CAUGHT/MISSED.
sd=$(readlink -f "$1"); shift
name=$(basename "$sd")
wt=/tmp/seedrun/$name
mkdir -p /tmp/seedrun; rm -rf "$wt" "$wt.out"
git -C /repo worktree prune
git -C /repo worktree add --detach "$wt" HEAD -q || exit 9
( cd "$wt" && git apply "$sd/patch.diff" ) || { echo "$name: PATCH DOES NOT APPLY"; git -C /repo worktree remove --force "$wt"; exit 8; }
mkdir -p "$wt.out"
for c in "$@"; do
  t0=$(date +%s)
  VERIF_REPO="$wt" VERIF_OUT="$wt.out" VERIF_SEED=${VERIF_SEED:-1} /verif/check "$c" --tier ${TIER:-quick} > "$wt.out/$c.log" 2>&1
  rc=$?
  t1=$(date +%s)
  if grep -q "^VIOLATION property=$c" "$wt.out/$c.log"; then
    echo "$name $c: CAUGHT (rc=$rc, $((t1-t0))s) $(grep -m1 -A1 '^VIOLATION' "$wt.out/$c.log" | tail -1 | cut -c1-200)"
  else
    echo "$name $c: MISSED (rc=$rc, $((t1-t0))s)"
  fi
done
git -C /repo worktree remove --force "$wt"
# drop the build made for this tree
find /verif/build -maxdepth 1 -name 'asan-*' -newer "$wt.out" -mmin -60 >/dev/null 2>&1
