"""Engines other than the rapidcheck runner (libFuzzer campaigns, fault enumeration,
Hypothesis-driven CLI checks).  Importing this module registers them."""
import driver  # noqa: F401
