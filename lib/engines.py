"""Engines other than the rapidcheck runner (libFuzzer campaigns, fault enumeration,
Hypothesis-driven CLI checks).  Importing this module registers them."""
import glob
import hashlib
import json
import os
import re
import shutil
import subprocess
import sys
import tempfile
import time

import driver
import ybuild
from driver import (CORPUS, FAIL, VERIF, keep_failure, log, merge_stats, open_known, prlimit_cmd, san_env,
                    write_evidence, write_known_list)
from props import PROPS


# --------------------------------------------------------------------------- libFuzzer
def _seed_files(globs):
    out = []
    for g in globs:
        g = g.replace("{repo}", ybuild.REPO).replace("{verif}", VERIF)
        for f in sorted(glob.glob(g)):
            if os.path.isfile(f) and os.path.getsize(f) <= 2 * 1024 * 1024:
                out.append(f)
    return out


def _c_unescape(lit):
    out = bytearray()
    i = 0
    while i < len(lit):
        c = lit[i]
        if c != "\\":
            out += c.encode("latin-1", "replace")
            i += 1
            continue
        i += 1
        if i >= len(lit):
            break
        c = lit[i]
        if c == "x":
            j = i + 1
            while j < len(lit) and j < i + 3 and lit[j] in "0123456789abcdefABCDEF":
                j += 1
            if j > i + 1:
                out.append(int(lit[i + 1:j], 16))
            i = j
            continue
        out += {"n": b"\n", "t": b"\t", "r": b"\r", "0": b"\0", "\\": b"\\", '"': b'"', "'": b"'"}.get(c, c.encode("latin-1", "replace"))
        i += 1
    return bytes(out)


def gen_rule_seeds(sdir):
    """Rule texts extracted from the repository's own tests and documentation."""
    texts = []
    for cfile in ("tests/test-rules.c", "tests/test-api.c", "tests/test-math.c", "tests/test-string.c", "tests/test-pe.c"):
        path = os.path.join(ybuild.REPO, cfile)
        if not os.path.exists(path):
            continue
        src = open(path, encoding="latin-1").read()
        # runs of adjacent C string literals
        for m in re.finditer(r'(?:"(?:[^"\\\n]|\\.)*"\s*)+', src):
            parts = re.findall(r'"((?:[^"\\\n]|\\.)*)"', m.group(0))
            t = _c_unescape("".join(parts))
            if b"rule" in t and b"condition" in t and len(t) < 6000:
                texts.append(t)
    for rst in glob.glob(os.path.join(ybuild.REPO, "docs", "*.rst")) + glob.glob(os.path.join(ybuild.REPO, "docs", "modules", "*.rst")):
        lines = open(rst, encoding="utf-8", errors="replace").read().split("\n")
        i = 0
        while i < len(lines):
            if lines[i].strip().startswith(".. code-block:: yara"):
                i += 1
                blk = []
                while i < len(lines) and (lines[i].startswith("    ") or not lines[i].strip()):
                    blk.append(lines[i][4:])
                    i += 1
                t = "\n".join(blk).strip().encode()
                if b"rule" in t and len(t) < 6000:
                    texts.append(t)
            else:
                i += 1
    for f in glob.glob(os.path.join(ybuild.REPO, "tests", "oss-fuzz", "rules_fuzzer_corpus", "*")):
        texts.append(open(f, "rb").read()[:6000])
    # systematic small rules around every string modifier: each modifier alone, every ordered pair
    # (legal combinations and the documented "duplicated modifier" / "invalid modifier" rejections),
    # for text strings, hex strings and regexps - error paths of the grammar get at least one
    # execution under the leak checker before mutation starts
    mods = ["nocase", "wide", "ascii", "fullword", "private", "xor", "xor(1)", "xor(1-9)", "base64", "base64wide",
            'base64("!@#$%^&*(){}[].,|ABCDEFGHIJ\\x09LMNOPQRSTUVWXYZabcdefghijklmnopqrstu")']
    bodies = [('"abc"', mods), ("{ 61 62 ?? 63 }", ["private", "wide"]), ("/ab+c/", ["nocase", "wide", "ascii", "fullword", "private", "xor"])]
    for body, ms in bodies:
        for a in ms:
            texts.append(("rule t { strings: $a = %s %s condition: $a }\n" % (body, a)).encode())
            for b in ms:
                texts.append(("rule t { strings: $a = %s %s %s condition: $a }\n" % (body, a, b)).encode())
    texts += [b'rule t { strings: $a = "a" $a = "b" condition: $a }\n', b'rule t { condition: true } rule t { condition: false }\n',
              b'private private rule t { condition: true }\n', b'global global rule t { condition: true }\n',
              b'rule t : a a { condition: true }\n', b'rule t { meta: a = 1 a = 2 condition: true }\n',
              b'rule t { condition: for any i in (1..2) : ( for any i in (1..2) : ( i == 1 ) ) }\n',
              b'rule t { strings: $a = "x" condition: for any of them : ( for any of them : ( $ ) ) }\n']
    # regexps at the boundaries of the regexp lexer / parser (class ranges ending at \xff, empty and maximal
    # repeat intervals, empty alternatives, escapes) and long include names (with the long source path of
    # the harness the resolved include path exceeds the lexer's 1024-byte path buffer)
    for rx in ["[\\x00-\\xff]", "[\\x80-\\xff]{2}", "[a-\\xff]+", "[^\\x00-\\xff]", "[\\xfe-\\xff]", "[\\xff-\\xff]", "[]-a]", "[^]]", "[a-]", "\\xff\\x00",
               "a{0}", "a{0,0}b", "a{,0}", "a{32767}", "a{0,32767}", "(a|)", "(a|b|)", "\\w\\W\\s\\S\\d\\D\\b\\B", "a??", "a*?b+?", "^$", "(^a|b$)", ".{1,3}?x", "[\\w-\\xff]",
               "[\\d-z]", "\\/", "a\\.b", "[\\]]", "[\\x5d-\\xff]"]:
        texts.append(("rule t { strings: $a = /%s/ condition: $a }\n" % rx).encode())
        texts.append(("rule t { condition: \"abc\" matches /%s/ }\n" % rx).encode())
    # regexps whose code size is around the 16-bit jump limit, with the large piece in every position that a jump
    # has to cross: whatever the compiler accepts must scan (the in-target oracle scans accepted rules)
    for n_ in (940, 1000):
        big = "[ab]" * n_
        for shape in ("x|%s", "%s|x", "y(%s)*x", "y(x|%s)", "(%s)?x", "(x|y|%s)"):
            texts.append(("rule t { strings: $a = /%s/ condition: $a }\n" % (shape % big)).encode())
    for n_ in (10, 200, 900, 1000, 1100, 2000):
        texts.append(("include \"%s.yar\"\nrule t { condition: true }\n" % ("i" * n_)).encode())
        texts.append(("include \"../%s/x.yar\"\nrule t { condition: true }\n" % ("j" * n_)).encode())
    seen = set()
    n = 0
    for t in texts:
        h = hashlib.sha1(t).hexdigest()
        if h in seen:
            continue
        seen.add(h)
        # first byte = harness options (externals defined, includes served)
        with open(os.path.join(sdir, "r%04d" % n), "wb") as f:
            f.write(bytes([0x18 | (n % 4) | ((n // 4) % 4) << 6]) + t)
        n += 1
        if t.startswith(b"include \""):
            # include directives through file and fd sources under every source-name shape
            for shape in range(4):
                for how in (2, 3):
                    with open(os.path.join(sdir, "r%04d" % n), "wb") as f:
                        f.write(bytes([0x18 | how | shape << 6]) + t)
                    n += 1
    return n


def gen_pe_pair_seeds(sdir, seed=1, limit=4000):
    """Systematic structure-aware expansion of the PE seeds already in `sdir`.

    For every data directory of every seed, every pair (A, B) of 32-bit words in the first 48 bytes of
    the directory's data where A looks like an RVA (maps into the file through the section table) and B
    looks like a small count: place A's table so that exactly B entries of 2 / 4 / 8 bytes fit before the
    end of the file, and raise B by 1, by 17 or double it - the shape "table ends with the data, count
    says there is more".  A pseudo-random sample of `limit` variants (a pure function of `seed`) is kept.
    """
    import struct
    variants = []
    for path in sorted(glob.glob(os.path.join(sdir, "*"))):
        try:
            d = open(path, "rb").read()
        except OSError:
            continue
        n = len(d)
        if n < 0x200 or n > 400000 or d[:2] != b"MZ":
            continue
        pe = struct.unpack_from("<I", d, 0x3c)[0]
        if pe + 0x108 > n or d[pe:pe + 4] != b"PE\0\0":
            continue
        nsec, optsz = struct.unpack_from("<H", d, pe + 6)[0], struct.unpack_from("<H", d, pe + 20)[0]
        opt = pe + 24
        magic = struct.unpack_from("<H", d, opt)[0]
        ddbase = opt + (96 if magic == 0x10b else 112)
        secs = []
        for i in range(min(nsec, 32)):
            sh = opt + optsz + i * 40
            if sh + 40 > n:
                break
            vs, va, rs, raw = struct.unpack_from("<IIII", d, sh + 8)
            secs.append((va, vs or rs or 1, raw))
        if not secs:
            continue

        def rva2off(rva):
            for va, vs, raw in secs:
                if va <= rva < va + vs:
                    return raw + rva - va
            return None

        lva, lvs, lraw = secs[-1]
        if not lraw or lraw >= n:
            continue
        for dd in range(15):
            if ddbase + dd * 8 + 8 > n:
                break
            drva, dsz = struct.unpack_from("<II", d, ddbase + dd * 8)
            doff = rva2off(drva) if drva else None
            if doff is None or doff + 48 > n:
                continue
            words = [struct.unpack_from("<I", d, doff + 4 * i)[0] for i in range(12)]
            As = [i for i, w in enumerate(words) if w and (rva2off(w) or n) < n]
            Bs = [i for i, w in enumerate(words) if 0 < w < 0x4000]
            for a in As:
                for b in Bs:
                    if a == b:
                        continue
                    for esize in (2, 4, 8):
                        for newb in (words[b] + 1, words[b] * 2, words[b] + 17):
                            variants.append((path, doff, a, b, esize, newb, lva + (n - lraw) - esize * words[b]))
    if not variants:
        return 0
    # deterministic sample
    order = sorted(range(len(variants)), key=lambda i: hashlib.sha1(b"%d/%d" % (seed, i)).digest())
    cache = {}
    kept = 0
    for i in order[:limit]:
        path, doff, a, b, esize, newb, newa = variants[i]
        if newa <= 0 or newa >= 1 << 32:
            continue
        if path not in cache:
            cache = {path: bytearray(open(path, "rb").read())}
        v = bytearray(cache[path])
        struct.pack_into("<I", v, doff + 4 * a, newa)
        struct.pack_into("<I", v, doff + 4 * b, newb & 0xffffffff)
        with open(os.path.join(sdir, "zpair-%05d" % kept), "wb") as f:
            f.write(v)
        kept += 1
    return kept


def gen_elf_field_seeds(sdir, seed=1, limit=800):
    """Systematic variants of the ELF seeds in `sdir`: the offset and size fields of every section and
    program header set to values at and around the end of the data and to values that make
    `base + offset + size` wrap around.  A pseudo-random sample of `limit` variants is kept."""
    import struct
    variants = []
    for path in sorted(glob.glob(os.path.join(sdir, "*"))):
        try:
            d = open(path, "rb").read()
        except OSError:
            continue
        n = len(d)
        if n < 0x40 or n > 400000 or d[:4] != b"\x7fELF" or d[4] not in (1, 2) or d[5] not in (1, 2):
            continue
        is64, en = d[4] == 2, "<" if d[5] == 1 else ">"
        W, fmt, mask = (8, "Q", (1 << 64) - 1) if is64 else (4, "I", (1 << 32) - 1)
        if is64:
            phoff, shoff = struct.unpack_from(en + "QQ", d, 0x20)
            phent, phnum, shent, shnum = struct.unpack_from(en + "HHHH", d, 0x36)
            sh_fields, ph_fields = (24, 32), (8, 32)     # sh_offset, sh_size; p_offset, p_filesz
        else:
            phoff, shoff = struct.unpack_from(en + "II", d, 0x1c)
            phent, phnum, shent, shnum = struct.unpack_from(en + "HHHH", d, 0x2a)
            sh_fields, ph_fields = (16, 20), (4, 16)
        tables = [(shoff, shent, min(shnum, 64), sh_fields, 64 if is64 else 40), (phoff, phent, min(phnum, 32), ph_fields, 56 if is64 else 32)]
        for base, ent, num, fields, want in tables:
            if not base or ent != want:
                continue
            for i in range(num):
                for fo in fields:
                    at = base + i * ent + fo
                    if at + W > n:
                        continue
                    old = struct.unpack_from(en + fmt, d, at)[0]
                    for v in (mask, (0 - n) & mask, (mask - old) & mask, n, n - 1, (old + n) & mask, mask - 0xff):
                        if v != old:
                            variants.append((path, at, en + fmt, v))
    if not variants:
        return 0
    order = sorted(range(len(variants)), key=lambda i: hashlib.sha1(b"elf/%d/%d" % (seed, i)).digest())
    cache = {}
    kept = 0
    for i in order[:limit]:
        path, at, f, v = variants[i]
        if path not in cache:
            cache = {path: open(path, "rb").read()}
        b = bytearray(cache[path])
        struct.pack_into(f, b, at, v)
        with open(os.path.join(sdir, "zfield-%05d" % kept), "wb") as fp:
            fp.write(b)
        kept += 1
    return kept


SEED_GENERATORS = {"rules": gen_rule_seeds, "pe_pairs": gen_pe_pair_seeds, "elf_fields": gen_elf_field_seeds}


def _fuzz_env(P, target, work, known_path, leaks=True):
    env = san_env(leaks)
    # libFuzzer must see sanitizer failures as crashes of the unit, not exit codes
    env["ASAN_OPTIONS"] = ("allocator_may_return_null=1:detect_stack_use_after_return=0:detect_leaks=%d:"
                           "handle_abort=1:print_summary=1:symbolize=1" % (1 if leaks else 0))
    env["UBSAN_OPTIONS"] = "print_stacktrace=1:halt_on_error=1"
    env.pop("LSAN_OPTIONS", None)
    env["VERIF_STATS_OUT"] = os.path.join(work, "stats-%s" % target["name"])
    env["VERIF_FAILDIR"] = os.path.join(work, "fail-%s" % target["name"])
    env["VERIF_KNOWN"] = known_path
    env["VERIF_REPO"] = ybuild.REPO
    os.makedirs(env["VERIF_FAILDIR"], exist_ok=True)
    for k, v in target.get("env", {}).items():
        env[k] = v.replace("{work}", work)
    return env


def _run_single(exe, path, env, timeout=180):
    try:
        p = subprocess.run(prlimit_cmd([exe, "-timeout=60", "-rss_limit_mb=4096", path]), env=env,
                           stdout=subprocess.PIPE, stderr=subprocess.STDOUT, timeout=timeout)
    except subprocess.TimeoutExpired:
        return "timeout", "single-input run timed out"
    out = p.stdout.decode(errors="replace")
    return ("pass" if p.returncode == 0 else "fail"), out


def run_fuzz(pid, tier, seed, replay=None):
    P = PROPS[pid]
    t0 = time.time()
    exe = ybuild.link_prop(P["src"], config="asan", variant="fz")
    work = tempfile.mkdtemp(prefix="verif-%s-" % pid, dir=os.path.join(VERIF, "build"))
    known_path = os.path.join(work, "known.txt")
    write_known_list(pid, known_path)
    targets = P["fuzz_targets"]
    try:
        if replay:
            base = os.path.basename(replay)
            tnames = [t for t in targets if base.startswith(t["name"] + "-")] or targets
            bad = False
            for t in tnames:
                env = _fuzz_env(P, t, work, known_path, P.get("leaks", True))
                st, out = _run_single(exe, replay, env)
                sys.stdout.write(out[-4000:])
                if st == "fail":
                    bad = True
                    break
            if bad:
                print("VIOLATION property=%s replay=%s" % (pid, replay))
                return 1
            print("REPLAY-PASS")
            return 0

        violations = []
        replayed = 0
        # 1. saved regression inputs
        for t in targets:
            env = _fuzz_env(P, t, work, known_path, P.get("leaks", True))
            for f in sorted(glob.glob(os.path.join(CORPUS, pid, t["name"] + "-*"))):
                st, out = _run_single(exe, f, env)
                replayed += 1
                if st == "fail" and all(_run_single(exe, f, env)[0] == "fail" for _ in range(2)):
                    violations.append((f, _summary(out)))

        # 2. campaigns, all targets concurrently
        budget = P[tier][1]
        forks = max(1, 16 // len(targets))
        procs = []
        for ti, t in enumerate(targets):
            env = _fuzz_env(P, t, work, known_path, P.get("leaks", True))
            cdir = os.path.join(work, "corpus-" + t["name"])
            sdir = os.path.join(work, "seeds-" + t["name"])
            adir = os.path.join(work, "art-" + t["name"])
            for d in (cdir, sdir, adir):
                os.makedirs(d)
            for i, f in enumerate(_seed_files(t.get("seeds", []))):
                shutil.copyfile(f, os.path.join(sdir, "%04d-%s" % (i, os.path.basename(f)[:40])))
            if t.get("seed_gen") == "pe_pairs":
                npairs = gen_pe_pair_seeds(sdir, seed, 1000 if tier == "quick" else 40000)
                log("%s: %d systematic (table-at-end-of-data, count raised) variants added to the seeds" % (t["name"], npairs))
            elif t.get("seed_gen") == "elf_fields":
                nf = gen_elf_field_seeds(sdir, seed, 800 if tier == "quick" else 20000)
                log("%s: %d systematic (offset / size fields at the end of the data and wrapping around) variants added to the seeds" % (t["name"], nf))
            elif t.get("seed_gen"):
                SEED_GENERATORS[t["seed_gen"]](sdir)
            env["VERIF_SEED_DIR"] = sdir
            cmd = [exe, "-fork=%d" % forks, "-max_total_time=%d" % budget, "-seed=%d" % (seed * 101 + ti + 1),
                   "-timeout=%d" % t.get("timeout", 25), "-rss_limit_mb=3500", "-max_len=%d" % t.get("max_len", 65536),
                   "-artifact_prefix=" + adir + "/", "-print_final_stats=1", "-ignore_timeouts=1", "-ignore_ooms=1",
                   "-ignore_crashes=0"]
            if t.get("dict"):
                d = t["dict"].replace("{repo}", ybuild.REPO).replace("{verif}", VERIF)
                if os.path.exists(d):
                    cmd.append("-dict=" + d)
            cmd += [cdir, sdir]
            lf = open(os.path.join(work, "fuzz-%s.log" % t["name"]), "wb")
            procs.append((t, subprocess.Popen(prlimit_cmd(cmd), env=env, stdout=lf, stderr=subprocess.STDOUT,
                                              cwd=work), lf, adir))
        for t, p, lf, adir in procs:
            try:
                p.wait(timeout=budget + 300)
            except subprocess.TimeoutExpired:
                p.kill()
                p.wait()
                log("campaign %s killed after hard limit" % t["name"])
            lf.close()

        # 3. artifacts
        lf_stats = {}
        for t, p, lf, adir in procs:
            env = _fuzz_env(P, t, work, known_path, P.get("leaks", True))
            logtxt = open(os.path.join(work, "fuzz-%s.log" % t["name"]), "rb").read().decode(errors="replace")
            m = re.findall(r"#(\d+): cov: (\d+) ft: (\d+) corp: (\d+)", logtxt)
            if m:
                lf_stats[t["name"]] = {"execs": int(m[-1][0]), "cov": int(m[-1][1]), "ft": int(m[-1][2]),
                                       "corpus": int(m[-1][3])}
            arts = sorted(glob.glob(os.path.join(adir, "crash-*")) + glob.glob(os.path.join(adir, "leak-*")),
                          key=os.path.getsize)
            noise = len(glob.glob(os.path.join(adir, "timeout-*")) + glob.glob(os.path.join(adir, "oom-*")) +
                        glob.glob(os.path.join(adir, "slow-unit-*")))
            if noise:
                lf_stats.setdefault(t["name"], {})["inconclusive_timeout_oom_slow"] = noise
            for a in arts[:4]:
                res = [_run_single(exe, a, env) for _ in range(3)]
                if all(r[0] == "fail" for r in res):
                    os.makedirs(os.path.join(FAIL, pid), exist_ok=True)
                    sha = hashlib.sha256(open(a, "rb").read()).hexdigest()[:12]
                    dst = os.path.join(FAIL, pid, "%s-%s.bin" % (t["name"], sha))
                    shutil.copyfile(a, dst)
                    violations.append((dst, _summary(res[0][1])))
                    break
                else:
                    log("artifact %s did not reproduce 3x - dropped" % a)
            # a hang counts only if it reproduces three times, single-threaded, with a larger bound
            hangs = sorted(glob.glob(os.path.join(adir, "timeout-*")), key=os.path.getsize)
            for a in hangs[:2]:
                if violations:
                    break
                res = []
                for _ in range(3):
                    try:
                        pr = subprocess.run(prlimit_cmd([exe, "-timeout=45", "-rss_limit_mb=4096", a]), env=env,
                                            stdout=subprocess.PIPE, stderr=subprocess.STDOUT, timeout=120)
                        res.append(pr.returncode != 0 and b"timeout" in pr.stdout.lower())
                    except subprocess.TimeoutExpired:
                        res.append(True)
                    if not res[-1]:
                        break
                if all(res) and len(res) == 3:
                    os.makedirs(os.path.join(FAIL, pid), exist_ok=True)
                    sha = hashlib.sha256(open(a, "rb").read()).hexdigest()[:12]
                    dst = os.path.join(FAIL, pid, "%s-%s.bin" % (t["name"], sha))
                    shutil.copyfile(a, dst)
                    violations.append((dst, "scan of this input does not terminate within 45 s (3 of 3 single-threaded runs)"))
            if p.returncode not in (0,) and not arts:
                log("campaign %s ended with status %s and no artifact:\n%s" % (t["name"], p.returncode, logtxt[-1500:]))

        stat_files = glob.glob(os.path.join(work, "stats-*"))
        tot = merge_stats(stat_files)
        wall = time.time() - t0
        known_hit = dict(tot["known"])
        listed = {k["signature"]: k for k in open_known(pid)}
        driver.print_known(pid, listed, known_hit)
        execs = sum(v.get("execs", 0) for v in lf_stats.values())
        cov = {
            "evaluations": max(tot["cases"], execs) + replayed,
            "distinct_nontrivial": len(tot["nontrivial"]),
            "rule": P["rule"],
            "samples": tot["samples"][:8] or ["(no non-trivial sample recorded)"],
            "classes": tot["classes"],
            "discards": tot["discards"],
            "libfuzzer": lf_stats,
            "corpus_replayed": replayed,
            "known_findings_hit": known_hit,
            "engine": "libFuzzer -fork (coverage-guided, structure-aware custom mutator) with in-target oracle",
        }
        write_evidence(pid, tier, seed, wall, cov, len(violations), P.get("assumptions", []))
        log("%s %s: %d executions, %d distinct non-trivial, %.1fs, libfuzzer=%s classes=%s" % (
            pid, tier, cov["evaluations"], cov["distinct_nontrivial"], wall, json.dumps(lf_stats, sort_keys=True),
            json.dumps(tot["classes"], sort_keys=True)))
        if violations:
            for path, msg in violations[:3]:
                print("VIOLATION property=%s replay=%s" % (pid, path))
                log("  " + msg)
            return 1
        if len(tot["nontrivial"]) < P.get("floor", 2):
            log("generator health: only %d non-trivial cases (floor %d)" % (len(tot["nontrivial"]), P.get("floor", 2)))
            return 3
        return 0
    finally:
        shutil.rmtree(work, ignore_errors=True)


def _summary(out):
    for pat in (r"PROPERTY-FAILURE.*\n.*\n(.*)", r"(SUMMARY: .*)", r"(ERROR: .*)", r"(runtime error: .*)"):
        m = re.search(pat, out)
        if m:
            return m.group(1)[:400]
    lines = [l for l in out.strip().splitlines() if l.strip()]
    return lines[-1][:400] if lines else "failed"


# --------------------------------------------------------------------------- Hypothesis / CLI
def run_py(pid, tier, seed, replay=None):
    P = PROPS[pid]
    t0 = time.time()
    bdir = ybuild.build_cli("asan")
    work = tempfile.mkdtemp(prefix="verif-%s-" % pid, dir=os.path.join(VERIF, "build"))
    script = os.path.join(VERIF, "lib", P["script"])
    py = shutil.which("python3-vt") or "/opt/veriftools/pyvenv/bin/python3"
    known = "\n".join(k["signature"] for k in open_known(pid))

    def env_for(w, examples):
        env = dict(os.environ)
        env.update({"C18_YARA": os.path.join(bdir, "yara"), "C18_YARAC": os.path.join(bdir, "yarac"),
                    "C18_OUT": os.path.join(work, "w%d.json" % w), "VERIF_SEED": str(seed * 100 + w), "VERIF_TIER": tier,
                    "C18_EXAMPLES": str(examples), "C18_KNOWN": known, "VERIF_REPO": ybuild.REPO,
                    "C18_FIXED": "1" if w == 0 else "0", "TMPDIR": work})
        return env
    try:
        if replay:
            p = subprocess.run([py, script, "--replay", replay], env=env_for(0, 1), stdout=subprocess.PIPE, stderr=subprocess.STDOUT)
            out = p.stdout.decode(errors="replace")
            sys.stdout.write(out)
            if p.returncode != 0:
                print("VIOLATION property=%s replay=%s" % (pid, replay))
                return 1
            return 0
        nworkers, examples = P[tier]
        procs = []
        for w in range(nworkers):
            lf = open(os.path.join(work, "w%d.log" % w), "wb")
            procs.append((subprocess.Popen([py, script], env=env_for(w, examples), stdout=lf, stderr=subprocess.STDOUT), lf, w))
        violations = []
        tot = {"invocations": 0, "examples": 0, "nontrivial": 0, "classes": {}, "samples": [], "known": {}}
        for p, lf, w in procs:
            try:
                p.wait(timeout=P.get("hard_limit", 1500))
            except subprocess.TimeoutExpired:
                p.kill()
                p.wait()
                log("worker %d killed after the hard limit (inconclusive)" % w)
            lf.close()
            of = os.path.join(work, "w%d.json" % w)
            if not os.path.exists(of):
                log("worker %d left no result (status %s):\n%s" % (w, p.returncode, open(os.path.join(work, "w%d.log" % w)).read()[-2000:]))
                if p.returncode not in (0, 1):
                    return 3
                continue
            d = json.load(open(of))
            for k in ("invocations", "examples", "nontrivial"):
                tot[k] += d[k]
            for k, v in d["classes"].items():
                tot["classes"][k] = tot["classes"].get(k, 0) + v
            for k, v in d["known"].items():
                tot["known"][k] = tot["known"].get(k, 0) + v
            tot["samples"] += d["samples"][:2]
            if d.get("failure"):
                os.makedirs(os.path.join(FAIL, pid), exist_ok=True)
                blob = json.dumps({"case": d["failure"]["case"], "message": d["failure"]["msg"]}, indent=1)
                dst = os.path.join(FAIL, pid, hashlib.sha256(blob.encode()).hexdigest()[:12] + ".json")
                open(dst, "w").write(blob)
                # confirm through the plain replay path, three times
                ok = 0
                for _ in range(3):
                    r = subprocess.run([py, script, "--replay", dst], env=env_for(0, 1), stdout=subprocess.PIPE, stderr=subprocess.STDOUT)
                    ok += r.returncode != 0
                if ok == 3:
                    violations.append((dst, d["failure"]["msg"][:600]))
                else:
                    log("failure of worker %d reproduced %d/3 times only - dropped as schedule-dependent noise: %s" % (w, ok, d["failure"]["msg"][:300]))
        listed = {k["signature"]: k for k in open_known(pid)}
        driver.print_known(pid, listed, tot["known"])
        wall = time.time() - t0
        cov = {"evaluations": tot["invocations"], "distinct_nontrivial": tot["nontrivial"], "rule": P["rule"],
               "samples": tot["samples"][:8] or ["(none)"], "generated_cases": tot["examples"], "classes": tot["classes"],
               "known_findings_hit": tot["known"], "engine": "Hypothesis (python3-vt) driving the yara / yarac binaries as subprocesses"}
        write_evidence(pid, tier, seed, wall, cov, len(violations), P.get("assumptions", []))
        log("%s %s: %d yara/yarac invocations over %d generated trees, %d non-trivial, %.1fs, classes=%s" % (
            pid, tier, tot["invocations"], tot["examples"], tot["nontrivial"], wall, json.dumps(tot["classes"], sort_keys=True)))
        if violations:
            for path, msg in violations[:3]:
                print("VIOLATION property=%s replay=%s" % (pid, path))
                log("  " + msg)
            return 1
        if tot["nontrivial"] < P.get("floor", 2):
            log("generator health: only %d non-trivial cases" % tot["nontrivial"])
            return 3
        return 0
    finally:
        shutil.rmtree(work, ignore_errors=True)


driver.register_engine("fuzz", run_fuzz)
driver.register_engine("py", run_py)
