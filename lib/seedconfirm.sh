#!/bin/bash
# usage: seedconfirm.sh <src-dir-with-patch.diff,run.sh> <name>
# Confirms a seeded change in a scratch worktree: demo passes on the clean tree,
# the patch applies, the existing test-suite still passes 16/16, demo fails with it.
src=$1; name=$2
wt=/tmp/seedchk/$name
mkdir -p /tmp/seedchk
rm -rf "$wt"; git -C /repo worktree prune
git -C /repo worktree add --detach "$wt" HEAD -q || exit 9
rsync -a --ignore-existing --exclude .git /repo/ "$wt"/
cd "$wt"
make -j8 >/dev/null 2>&1
( cd "$src" && bash ./run.sh "$wt" ) > "$wt.clean.log" 2>&1; clean=$?
git apply "$src/patch.diff" || { echo "$name: PATCH DOES NOT APPLY"; exit 8; }
make -j8 check > "$wt.check.log" 2>&1
pass=$(grep -E "^# PASS:" "$wt.check.log" | awk '{print $3}')
fail=$(grep -E "^# FAIL:" "$wt.check.log" | awk '{print $3}')
( cd "$src" && bash ./run.sh "$wt" ) > "$wt.mut.log" 2>&1; mut=$?
echo "$name: demo-clean=$clean tests-pass=$pass tests-fail=$fail demo-mutant=$mut"
cd /; git -C /repo worktree remove --force "$wt"
