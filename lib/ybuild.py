"""Out-of-tree builds of libyara (+ shim, + cli) from /repo's current working tree.

Nothing is ever written into /repo.  A build directory is keyed by the SHA-256 of
every input (sources under /repo/libyara and /repo/cli, the shim, the flags), so an
edited source always yields a fresh build and an unchanged tree is reused.
"""
import fcntl
import hashlib
import os
import shutil
import subprocess
import sys
import time
from concurrent.futures import ThreadPoolExecutor

VERIF = os.path.dirname(os.path.dirname(os.path.abspath(__file__)))
REPO = os.environ.get("VERIF_REPO", "/repo")
BUILD = os.path.join(VERIF, "build")
JOBS = int(os.environ.get("VERIF_JOBS", "16"))

CC = "clang"
CXX = "clang++"

# UBSan subset: the checks that indicate memory unsafety or a trap.  Not included on
# purpose: alignment / signed-integer-overflow / shift (the VM does them by design),
# and pointer-overflow / nonnull-attribute, which in this tree only report the
# harmless forms `NULL + 0` and `memcpy(dst, NULL, 0)`; a real NULL dereference
# (strlen(NULL) ...) still faults and is reported by ASan.
UBSAN = ("bounds,null,object-size,vla-bound,return,unreachable,"
         "integer-divide-by-zero,bool,enum,builtin")

DEFINES = [
    "-D_GNU_SOURCE", "-DUSE_LINUX_PROC", "-DDOTNET_MODULE", "-DHASH_MODULE",
    "-DMACHO_MODULE", "-DDEX_MODULE", "-DBUCKETS_128=1", "-DCHECKSUM_1B=1",
    "-DHAVE_LIBCRYPTO=1", "-DHAVE_OPENSSL_EVP_H=1", "-DHAVE_OPENSSL_ASN1_H=1",
    "-DHAVE_OPENSSL_CRYPTO_H=1", "-DHAVE_OPENSSL_BIO_H=1", "-DHAVE_OPENSSL_PKCS7_H=1",
    "-DHAVE_OPENSSL_X509_H=1", "-DHAVE_OPENSSL_SAFESTACK_H=1", "-DHAVE_MEMMEM=1",
    "-DHAVE_TIMEGM=1", "-DHAVE_CLOCK_GETTIME=1", "-DHAVE_STDBOOL_H=1",
    "-DHAVE_SCAN_PROC_IMPL=1", "-DYYTEXT_POINTER=1", '-DPACKAGE_VERSION="4.5.2"',
    '-DPACKAGE_STRING="yara 4.5.2"', "-DHAVE_STDIO_H=1", "-DHAVE_STDLIB_H=1",
    "-DHAVE_STRING_H=1", "-DHAVE_INTTYPES_H=1", "-DHAVE_STDINT_H=1",
    "-DHAVE_UNISTD_H=1", "-DYARA_VERIF",
]

CONFIGS = {
    # in-process property checks and libFuzzer targets
    "asan": ["-g", "-O1", "-fno-omit-frame-pointer",
             "-fsanitize=address," + UBSAN, "-fno-sanitize-recover=all",
             "-fsanitize=fuzzer-no-link"],
    # C09
    "tsan": ["-g", "-O1", "-fno-omit-frame-pointer", "-fsanitize=thread"],
    # plain optimized build (no sanitizer) for cross-checks / speed
    "plain": ["-g", "-O1"],
}

LINK_SAN = {
    "asan": ["-fsanitize=address," + UBSAN],
    "tsan": ["-fsanitize=thread"],
    "plain": [],
}

GEN_Y = ["grammar", "hex_grammar", "re_grammar"]
GEN_L = ["lexer", "hex_lexer", "re_lexer"]
MODULE_SRCS = [
    "modules/tests/tests.c", "modules/elf/elf.c", "modules/math/math.c",
    "modules/time/time.c", "modules/pe/pe.c", "modules/pe/pe_utils.c",
    "modules/console/console.c", "modules/string/string.c", "modules/hash/hash.c",
    "modules/dotnet/dotnet.c", "modules/macho/macho.c", "modules/dex/dex.c",
    "modules/pe/authenticode-parser/authenticode.c",
    "modules/pe/authenticode-parser/certificate.c",
    "modules/pe/authenticode-parser/helper.c",
    "modules/pe/authenticode-parser/countersignature.c",
    "modules/pe/authenticode-parser/structs.c",
    "proc/linux.c",
]


def log(*a):
    print("[build]", *a, file=sys.stderr, flush=True)


def _walk(root, exts):
    out = []
    for d, dirs, files in os.walk(root):
        dirs[:] = sorted(x for x in dirs if x not in (".libs", ".deps"))
        for f in sorted(files):
            if f.endswith(exts):
                out.append(os.path.join(d, f))
    return out


def lib_sources():
    lib = os.path.join(REPO, "libyara")
    generated = {g + ".c" for g in GEN_Y + GEN_L}
    srcs = [os.path.join(lib, f) for f in sorted(os.listdir(lib))
            if f.endswith(".c") and f not in generated]
    srcs += [os.path.join(lib, m) for m in MODULE_SRCS if os.path.exists(os.path.join(lib, m))]
    srcs += sorted(_walk(os.path.join(lib, "tlshc"), (".c",)))
    return srcs


def tree_hash(extra=()):
    h = hashlib.sha256()
    files = _walk(os.path.join(REPO, "libyara"), (".c", ".h", ".y", ".l"))
    files += _walk(os.path.join(REPO, "cli"), (".c", ".h"))
    files += _walk(os.path.join(VERIF, "shim"), (".c", ".h"))
    plan = _gen_plan()
    h.update(("shipped-generated:" + ",".join(plan)).encode())
    for f in files:
        # a generated parser shipped in the tree is ignored when it is going to be regenerated
        b = os.path.basename(f)
        if os.path.dirname(f) == os.path.join(REPO, "libyara") and b in (
                [g + ".c" for g in GEN_Y + GEN_L if g not in plan] + [g + ".h" for g in GEN_Y if g not in plan]):
            continue
        h.update(f.encode())
        with open(f, "rb") as fp:
            h.update(hashlib.sha256(fp.read()).digest())
    for e in extra:
        h.update(repr(e).encode())
    return h.hexdigest()[:16]


def run(cmd, cwd=None, quiet=True):
    p = subprocess.run(cmd, cwd=cwd, stdout=subprocess.PIPE, stderr=subprocess.STDOUT)
    if p.returncode != 0:
        sys.stderr.write("BUILD FAILED: %s\n%s\n" % (" ".join(cmd), p.stdout.decode(errors="replace")))
        raise SystemExit(3)
    return p.stdout


def _gen_plan():
    """Which generated parsers / lexers are taken from the tree as shipped.

    Same rule as the tree's own Makefile: a generated .c is rebuilt from its .y / .l only when
    the source is strictly newer; otherwise the shipped file is what `make` compiles, so it is
    what the checks must compile too (an edit made to grammar.c alone is honoured, and so is an
    edit made to grammar.y alone)."""
    lib = os.path.join(REPO, "libyara")
    shipped = []
    for g, ext in [(g, ".y") for g in GEN_Y] + [(l, ".l") for l in GEN_L]:
        src, gen = os.path.join(lib, g + ext), os.path.join(lib, g + ".c")
        need_h = ext == ".y"
        if os.path.exists(gen) and (not need_h or os.path.exists(os.path.join(lib, g + ".h"))):
            if os.path.getmtime(src) <= os.path.getmtime(gen):
                shipped.append(g)
    return tuple(sorted(shipped))


def _gen_parsers(gdir):
    lib = os.path.join(REPO, "libyara")
    os.makedirs(gdir, exist_ok=True)

    def bison(g):
        if g in _gen_plan():
            shutil.copyfile(os.path.join(lib, g + ".c"), os.path.join(gdir, g + ".c"))
            shutil.copyfile(os.path.join(lib, g + ".h"), os.path.join(gdir, g + ".h"))
            return
        run(["bison", "-y", "-d", "-Wno-yacc", "-o", os.path.join(gdir, g + ".c"),
             os.path.join(lib, g + ".y")])

    def flex(l):
        if l in _gen_plan():
            shutil.copyfile(os.path.join(lib, l + ".c"), os.path.join(gdir, l + ".c"))
            return
        d = os.path.join(gdir, "_" + l)
        os.makedirs(d, exist_ok=True)
        run(["flex", os.path.join(lib, l + ".l")], cwd=d)
        os.replace(os.path.join(d, "lex.yy.c"), os.path.join(gdir, l + ".c"))
        shutil.rmtree(d)

    with ThreadPoolExecutor(6) as ex:
        fs = [ex.submit(bison, g) for g in GEN_Y] + [ex.submit(flex, l) for l in GEN_L]
        for f in fs:
            f.result()


def includes(gdir):
    return ["-I" + gdir, "-I" + os.path.join(REPO, "libyara", "include"),
            "-I" + os.path.join(REPO, "libyara"), "-I" + REPO,
            "-I" + os.path.join(VERIF, "shim")]


def _prune(keep_prefix, keep_dir):
    """Remove stale build dirs of the same config (disk hygiene)."""
    if not os.path.isdir(BUILD):
        return
    for d in os.listdir(BUILD):
        p = os.path.join(BUILD, d)
        if d.startswith(keep_prefix + "-") and p != keep_dir and os.path.isdir(p):
            # only prune directories older than 6 hours or not locked
            try:
                if time.time() - os.path.getmtime(p) > 6 * 3600:
                    shutil.rmtree(p, ignore_errors=True)
            except OSError:
                pass


def build_lib(config):
    """Build libyara.a + yshim.o for `config`; returns build dir."""
    flags = CONFIGS[config]
    hsh = tree_hash(extra=[config, flags, DEFINES])
    bdir = os.path.join(BUILD, "%s-%s" % (config, hsh))
    stamp = os.path.join(bdir, "OK")
    os.makedirs(BUILD, exist_ok=True)
    lockf = open(os.path.join(BUILD, ".lock-%s" % config), "w")
    fcntl.flock(lockf, fcntl.LOCK_EX)
    try:
        if os.path.exists(stamp):
            os.utime(bdir)
            return bdir
        t0 = time.time()
        if os.path.isdir(bdir):
            shutil.rmtree(bdir)
        os.makedirs(bdir)
        gdir = os.path.join(bdir, "gen")
        _gen_parsers(gdir)
        srcs = lib_sources() + [os.path.join(gdir, g + ".c") for g in GEN_Y + GEN_L]
        inc = includes(gdir)
        objs = []
        cmds = []
        for s in srcs:
            o = os.path.join(bdir, "obj", os.path.relpath(s, "/").replace("/", "_")[:-2] + ".o")
            objs.append(o)
            cmds.append([CC, "-c", "-w"] + flags + DEFINES + inc + [s, "-o", o])
        os.makedirs(os.path.join(bdir, "obj"))
        shim_o = os.path.join(bdir, "yshim.o")
        cmds.append([CC, "-c", "-Wall", "-Wno-unused-function"] + flags + DEFINES + inc +
                    [os.path.join(VERIF, "shim", "yshim.c"), "-o", shim_o])
        with ThreadPoolExecutor(JOBS) as ex:
            for f in [ex.submit(run, c) for c in cmds]:
                f.result()
        run(["ar", "rcs", os.path.join(bdir, "libyara.a")] + objs)
        shutil.rmtree(os.path.join(bdir, "obj"))
        open(stamp, "w").write("%s\n" % hsh)
        log("built %s in %.1fs -> %s" % (config, time.time() - t0, bdir))
        _prune(config, bdir)
        return bdir
    finally:
        fcntl.flock(lockf, fcntl.LOCK_UN)
        lockf.close()


def build_cli(config):
    """Build yara and yarac against libyara of `config`."""
    bdir = build_lib(config)
    lockf = open(os.path.join(BUILD, ".lock-%s" % config), "w")
    fcntl.flock(lockf, fcntl.LOCK_EX)
    try:
        ya, yc = os.path.join(bdir, "yara"), os.path.join(bdir, "yarac")
        if os.path.exists(ya) and os.path.exists(yc):
            return bdir
        flags = [f for f in CONFIGS[config] if "fuzzer" not in f]
        inc = includes(os.path.join(bdir, "gen")) + ["-I" + os.path.join(REPO, "cli")]
        cli = os.path.join(REPO, "cli")
        common = [os.path.join(cli, f) for f in ("args.c", "common.c", "threading.c")]
        link = LINK_SAN[config] + ["-lcrypto", "-lm", "-lpthread"]
        # libyara objects were built with fuzzer-no-link coverage; link needs the
        # sancov runtime, which asan provides.
        cmds = [
            [CC, "-w"] + flags + DEFINES + inc + common + [os.path.join(cli, "yara.c"),
             os.path.join(bdir, "libyara.a"), "-o", ya + ".tmp"] + link,
            [CC, "-w"] + flags + DEFINES + inc + common + [os.path.join(cli, "yarac.c"),
             os.path.join(bdir, "libyara.a"), "-o", yc + ".tmp"] + link,
        ]
        with ThreadPoolExecutor(2) as ex:
            for f in [ex.submit(run, c) for c in cmds]:
                f.result()
        os.replace(ya + ".tmp", ya)
        os.replace(yc + ".tmp", yc)
        return bdir
    finally:
        fcntl.flock(lockf, fcntl.LOCK_UN)
        lockf.close()


# ---------------------------------------------------------------------------
# property translation units (harness side; never include yara headers)

PROPS_SRC = os.path.join(VERIF, "props")
PROPS_OBJ = os.path.join(BUILD, "props")
PROP_CXXFLAGS = ["-std=gnu++17", "-g", "-O1", "-I" + os.path.join(VERIF, "shim"),
                 "-I" + PROPS_SRC, "-Wall", "-Wno-unused-function", "-Wno-unused-variable"]


def _file_hash(paths, extra=()):
    h = hashlib.sha256()
    for p in paths:
        with open(p, "rb") as fp:
            h.update(fp.read())
    h.update(repr(extra).encode())
    return h.hexdigest()[:16]


def prop_object(name, variant="rc"):
    """Compile props/<name>.cpp (variant rc = rapidcheck main, fz = libFuzzer entry)."""
    src = os.path.join(PROPS_SRC, name + ".cpp")
    hdrs = sorted(_walk(PROPS_SRC, (".hpp", ".h"))) + [os.path.join(VERIF, "shim", "yshim.h")]
    flags = list(PROP_CXXFLAGS)
    if variant == "fz":
        flags += ["-DVERIF_LIBFUZZER", "-fsanitize=fuzzer-no-link,address"]
    if variant == "tsan":
        flags += ["-fsanitize=thread"]
    hsh = _file_hash([src] + hdrs, extra=flags)
    os.makedirs(PROPS_OBJ, exist_ok=True)
    obj = os.path.join(PROPS_OBJ, "%s-%s-%s.o" % (name, variant, hsh))
    if os.path.exists(obj):
        return obj
    lockf = open(os.path.join(BUILD, ".lock-prop-%s-%s" % (name, variant)), "w")
    fcntl.flock(lockf, fcntl.LOCK_EX)
    try:
        if os.path.exists(obj):
            return obj
        t0 = time.time()
        run([CXX, "-c"] + flags + [src, "-o", obj + ".tmp"])
        os.replace(obj + ".tmp", obj)
        for f in os.listdir(PROPS_OBJ):
            if f.startswith("%s-%s-" % (name, variant)) and os.path.join(PROPS_OBJ, f) != obj:
                try:
                    os.unlink(os.path.join(PROPS_OBJ, f))
                except OSError:
                    pass
        log("compiled %s (%s) in %.1fs" % (name, variant, time.time() - t0))
        return obj
    finally:
        fcntl.flock(lockf, fcntl.LOCK_UN)
        lockf.close()


def link_prop(name, config="asan", variant="rc", extra_link=()):
    """Link props/<name> against libyara of `config`; returns path of the binary."""
    bdir = build_lib(config)
    obj = prop_object(name, variant)
    tag = os.path.basename(obj)[:-2]
    exe = os.path.join(bdir, "bin-" + tag + ("-w" if extra_link else ""))
    if os.path.exists(exe):
        return exe
    lockf = open(os.path.join(BUILD, ".lock-link-%s" % name), "w")
    fcntl.flock(lockf, fcntl.LOCK_EX)
    try:
        if os.path.exists(exe):
            return exe
        link = list(LINK_SAN[config])
        if variant == "fz":
            link = ["-fsanitize=fuzzer,address," + UBSAN]
        cmd = [CXX, obj, os.path.join(bdir, "yshim.o"), os.path.join(bdir, "libyara.a"),
               "-o", exe + ".tmp"] + link + list(extra_link) + \
              ["-lrapidcheck", "-lcrypto", "-lm", "-lpthread"]
        run(cmd)
        os.replace(exe + ".tmp", exe)
        return exe
    finally:
        fcntl.flock(lockf, fcntl.LOCK_UN)
        lockf.close()


if __name__ == "__main__":
    for c in sys.argv[1:] or ["asan"]:
        print(build_lib(c))
