#!/bin/sh
# usage: mkseedtree.sh <name>   -> scratch worktree /tmp/seed/<name> of /repo HEAD with the configured build files
set -e
d=/tmp/seed/$1
mkdir -p /tmp/seed
git -C /repo worktree add --detach "$d" HEAD -q
rsync -a --ignore-existing --exclude .git /repo/ "$d"/
echo "$d"
