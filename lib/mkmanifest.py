#!/usr/bin/env python3
"""Regenerates /verif/MANIFEST.json from lib/props.py so the two never drift."""
import json
import os
import sys

sys.path.insert(0, os.path.dirname(os.path.abspath(__file__)))
from props import PROPS, NOT_APPLICABLE, HOOK_COMMITS  # noqa: E402

VERIF = os.path.dirname(os.path.dirname(os.path.abspath(__file__)))

ALL = ["C%02d" % i for i in range(1, 21)]

m = {
    "version": 1,
    "setup_cmd": "./check setup",
    "hooks": {
        "guard": "YARA_VERIF",
        "enable": "checks compile /repo/libyara out-of-tree (lib/ybuild.py) with -DYARA_VERIF; the in-tree autotools build never defines it",
        "baseline_off_cmd": "make -C /repo -j16 check",
        "source_commits": HOOK_COMMITS,
        "add_only": True,
    },
    "engines": [
        {"name": "rapidcheck-runner", "path": "props/common.hpp + lib/driver.py",
         "serves_properties": sorted(p for p, P in PROPS.items() if P.get("engine", "rc") == "rc"),
         "kind_free_text": "rapidcheck property per TU over a recorded choice tape (same generators feed libFuzzer and plain replay); 16 worker processes; failures shrunk by rapidcheck then replayed 3x without the library"},
    ],
    "checks": [],
    "not_applicable": [],
    "notes": "See DESIGN.md. Known findings: known_findings.json. Seeded changes: seeded/.",
}
for pid in ALL:
    if pid in PROPS:
        P = PROPS[pid]
        m["checks"].append({
            "property_id": pid,
            "quick_cmd": "./check %s --tier quick" % pid,
            "thorough_cmd": "./check %s --tier thorough" % pid,
            "evidence_file": "/verif/evidence/%s.json" % pid,
            "replay_cmd_template": "./check %s --replay {path}" % pid,
            "engine": P.get("engine_name", "rapidcheck-runner"),
            "level_claimed": {"category": P["level"], "text": P["level_text"],
                              "design_ref": "DESIGN.md section 4 (plan) and section 9 (as built), %s" % pid},
            "level_note": P["level_note"],
            "technique": P["technique"],
        })
    else:
        m["not_applicable"].append({"property_id": pid, "reason": NOT_APPLICABLE.get(
            pid, "not claimed yet: the check for this property is not built in this revision (planned, see DESIGN.md section 4)")})
for e in [
    {"name": "libfuzzer-runner", "engine": "fuzz", "path": "lib/engines.py", "text": "libFuzzer -fork campaigns with in-target semantic oracles"},
    {"name": "hypothesis-cli-runner", "engine": "py", "path": "lib/c18.py + lib/engines.py",
     "text": "Hypothesis (python3-vt, seeded, no database) driving the ASan-built yara / yarac binaries as subprocesses; failing example saved as JSON and replayed 3x"},
]:
    ids = sorted(p for p, P in PROPS.items() if P.get("engine") == e["engine"])
    if ids:
        m["engines"].append({"name": e["name"], "path": e["path"], "serves_properties": ids, "kind_free_text": e["text"]})
with open(os.path.join(VERIF, "MANIFEST.json"), "w") as f:
    json.dump(m, f, indent=1)
print("MANIFEST.json: %d checks, %d not applicable" % (len(m["checks"]), len(m["not_applicable"])))
