import glob
import hashlib
import json
import os
import re
import shutil
import subprocess
import sys
import tempfile
import time
from concurrent.futures import ThreadPoolExecutor

import ybuild
from props import PROPS

VERIF = ybuild.VERIF
# VERIF_OUT redirects evidence and failure files (used when a check is pointed at a
# scratch tree via VERIF_REPO, e.g. while testing seeded changes), so that the
# committed evidence always comes from /repo itself.
_OUT = os.environ.get("VERIF_OUT")
EVID = os.path.join(_OUT or VERIF, "evidence")
FAIL = os.path.join(_OUT or VERIF, "failures")
CORPUS = os.path.join(VERIF, "corpus")
KNOWN_FILE = os.path.join(VERIF, "known_findings.json")
NWORKERS = int(os.environ.get("VERIF_WORKERS", "16"))


def log(*a):
    print("[check]", *a, file=sys.stderr, flush=True)


def san_env(leaks):
    env = dict(os.environ)
    env["ASAN_OPTIONS"] = ("exitcode=77:allocator_may_return_null=1:detect_stack_use_after_return=1:"
                           "detect_leaks=%d:abort_on_error=0:handle_abort=1:print_summary=1" % (1 if leaks else 0))
    env["UBSAN_OPTIONS"] = "exitcode=77:print_stacktrace=1:halt_on_error=1"
    env["LSAN_OPTIONS"] = "exitcode=77"
    env["TSAN_OPTIONS"] = "exitcode=77:halt_on_error=1:second_deadlock_stack=1"
    return env


def prlimit_cmd(cmd):
    # 256 MiB stack (DESIGN.md 5): sanitizer frames are large and the parsers recurse
    return ["prlimit", "--stack=268435456:268435456"] + cmd


# ---------------------------------------------------------------- known findings
def load_known():
    if not os.path.exists(KNOWN_FILE):
        return []
    with open(KNOWN_FILE) as f:
        return json.load(f).get("findings", [])


def open_known(pid):
    return [k for k in load_known() if k["property"] == pid and k.get("status") == "open"]


def write_known_list(pid, path):
    with open(path, "w") as f:
        for k in open_known(pid):
            f.write(k["signature"] + "\n")


# ---------------------------------------------------------------- replay
def replay_once(exe, path, env, timeout=300):
    """returns (status, known_sigs, output); status in pass/fail/crash"""
    try:
        p = subprocess.run(prlimit_cmd([exe, "--replay", path]), env=env, stdout=subprocess.PIPE,
                           stderr=subprocess.STDOUT, timeout=timeout)
    except subprocess.TimeoutExpired:
        return "timeout", [], "replay timed out"
    out = p.stdout.decode(errors="replace")
    known = re.findall(r"^KNOWN (.+)$", out, re.M)
    if p.returncode == 0 and "REPLAY-PASS" in out:
        return "pass", known, out
    if p.returncode == 1 and "REPLAY-FAIL" in out:
        return "fail", known, out
    return "crash", known, out


def confirm_failure(exe, path, env, known_args):
    """replay 3x through the plain path; a violation only if it fails every time"""
    res = []
    for _ in range(3):
        st, _, out = replay_once(exe + known_args if False else exe, path, env)
        res.append(st)
    return all(r in ("fail", "crash") for r in res), res


def keep_failure(pid, path):
    os.makedirs(os.path.join(FAIL, pid), exist_ok=True)
    with open(path, "rb") as f:
        data = f.read()
    sha = hashlib.sha256(data).hexdigest()[:12]
    ext = os.path.splitext(path)[1] or ".case"
    dst = os.path.join(FAIL, pid, sha + ext)
    if os.path.abspath(path) != dst:
        shutil.copyfile(path, dst)
    return dst


# ---------------------------------------------------------------- evidence
def write_evidence(pid, tier, seed, wall, cov, violations, assumptions, extra=None):
    os.makedirs(EVID, exist_ok=True)
    P = PROPS[pid]
    ev = {
        "property_id": pid,
        "tier": tier,
        "seed": seed,
        "level": P["level"],
        "coverage": cov,
        "assumptions": assumptions,
        "wall_s": round(wall, 2),
        "violations": violations,
    }
    if extra:
        ev.update(extra)
    tmp = os.path.join(EVID, pid + ".json.tmp")
    with open(tmp, "w") as f:
        json.dump(ev, f, indent=1, sort_keys=True)
    os.replace(tmp, os.path.join(EVID, pid + ".json"))


# ---------------------------------------------------------------- rapidcheck engine
def merge_stats(files):
    tot = {"evaluations": 0, "cases": 0, "nontrivial": set(), "classes": {}, "discards": {},
           "known": {}, "samples": [], "failures": []}
    for f in files:
        if not os.path.exists(f):
            continue
        try:
            with open(f) as fp:
                d = json.load(fp)
        except Exception:
            continue
        tot["evaluations"] += d.get("evaluations", 0)
        tot["cases"] += d.get("cases", 0)
        tot["nontrivial"].update(d.get("nontrivial", []))
        for key in ("classes", "discards", "known"):
            for k, v in d.get(key, {}).items():
                tot[key][k] = tot[key].get(k, 0) + v
        for s in d.get("samples", []):
            if len(tot["samples"]) < 10:
                tot["samples"].append(s)
        if d.get("failure_replay"):
            tot["failures"].append((d["failure_replay"], d.get("failure_msg", "")))
    return tot


def print_known(pid, listed, hit):
    """One KNOWN-FINDING line per finding listed (open) for the property: the finding is a fact about the
    tree, recorded with its reproduction in known_findings.json, whether or not this run's sample met it."""
    for sig in sorted(listed):
        cnt = hit.get(sig, 0)
        print("KNOWN-FINDING: property=%s %s [signature %s, %s]" % (
            pid, listed[sig]["what"], sig, "seen %d times in this run" % cnt if cnt else "not met by this run's sample"))


def run_rc(pid, tier, seed, replay=None):
    P = PROPS[pid]
    t0 = time.time()
    config = P.get("config", "asan")
    exe = ybuild.link_prop(P["src"], config=config, variant=P.get("variant", "rc"), extra_link=P.get("extra_link", ()))
    env = san_env(P.get("leaks", False))
    for k, v in P.get("env", {}).items():
        env[k] = v
    if P.get("needs_cli"):
        # the property also speaks about the command-line tools: ASan build of cli/*.c from the same tree
        env["VERIF_CLI_DIR"] = ybuild.build_cli("asan")
    work = tempfile.mkdtemp(prefix="verif-%s-" % pid, dir=os.path.join(VERIF, "build"))
    os.makedirs(FAIL, exist_ok=True)
    known_path = os.path.join(work, "known.txt")
    write_known_list(pid, known_path)
    base_args = ["--known", known_path, "--faildir", work, "--tier", tier]

    def replay_cmd(path):
        try:
            p = subprocess.run(prlimit_cmd([exe, "--replay", path] + base_args), env=env,
                               stdout=subprocess.PIPE, stderr=subprocess.STDOUT,
                               timeout=P.get("replay_timeout", 120))
        except subprocess.TimeoutExpired:
            return "timeout", [], "replay timed out"
        out = p.stdout.decode(errors="replace")
        known = re.findall(r"^KNOWN (.+)$", out, re.M)
        if p.returncode == 0 and "REPLAY-PASS" in out:
            return "pass", known, out
        if p.returncode == 1 and "REPLAY-FAIL" in out:
            return "fail", known, out
        return "crash", known, out

    try:
        if replay:
            st, known, out = replay_cmd(replay)
            sys.stdout.write(out)
            if st in ("fail", "crash"):
                print("VIOLATION property=%s replay=%s" % (pid, replay))
                return 1
            return 0

        violations = []
        known_hit = {}
        # 1. hand-written fixed cases (regressions, known-finding reproductions), then
        #    saved tapes (seconds)
        replayed = 0
        if P.get("parallel_fixed"):
            # long fixed cases (C16: one exhaustive enumeration per scenario): one process each, all at once
            names = subprocess.run([exe, "--list-fixed"], env=env, stdout=subprocess.PIPE).stdout.decode().split()

            def one_fixed(name):
                rf = os.path.join(work, "fixed-%s.case" % name)
                with open(rf, "w") as fp:
                    fp.write("fixed %s\n" % name)
                try:
                    p1 = subprocess.run(prlimit_cmd([exe, "--replay", rf] + base_args), env=env, stdout=subprocess.PIPE,
                                        stderr=subprocess.STDOUT, timeout=P.get("fixed_timeout", 3000))
                    return p1.returncode, p1.stdout.decode(errors="replace")
                except subprocess.TimeoutExpired:
                    log("fixed case %s did not finish within its time limit (inconclusive)" % name)
                    return 0, ""
            from concurrent.futures import ThreadPoolExecutor
            with ThreadPoolExecutor(16) as ex:
                results = list(ex.map(one_fixed, names))
            fout = "\n".join(o for _, o in results)
            rcs = [r for r, _ in results if r not in (0, 1)]
            pf = subprocess.CompletedProcess([], rcs[0] if rcs else 0)
        else:
            pf = subprocess.run(prlimit_cmd([exe, "--fixed"] + base_args), env=env, stdout=subprocess.PIPE,
                                stderr=subprocess.STDOUT, timeout=P.get("replay_timeout", 600))
            fout = pf.stdout.decode(errors="replace")
        for k in re.findall(r"^KNOWN (.+)$", fout, re.M):
            known_hit[k] = known_hit.get(k, 0) + 1
        replayed += len(re.findall(r"^FIXED \S+ (PASS|FAIL)", fout, re.M))
        bad_fixed = re.findall(r"^FIXED (\S+) FAIL (.*)$", fout, re.M)
        if pf.returncode not in (0, 1):
            log("fixed cases crashed (status %s):\n%s" % (pf.returncode, fout[-3000:]))
            bad_fixed.append(("crash", "fixed-case run died with status %s" % pf.returncode))
        for name, msg in bad_fixed:
            os.makedirs(os.path.join(FAIL, pid), exist_ok=True)
            fpath = os.path.join(FAIL, pid, "fixed-%s.case" % name)
            with open(fpath, "w") as fp:
                fp.write("# property %s\n# hand-written fixed case (props/%s.cpp fixed_cases)\n#! %s\nfixed %s\n" %
                         (pid, P["src"], msg, name))
            violations.append((fpath, "fixed case %s: %s" % (name, msg)))
        corpus_files = sorted(glob.glob(os.path.join(CORPUS, pid, "*.case")))
        for cf in corpus_files:
            st, known, out = replay_cmd(cf)
            replayed += 1
            for k in known:
                known_hit[k] = known_hit.get(k, 0) + 1
            if st in ("fail", "crash"):
                ok3 = all(replay_cmd(cf)[0] in ("fail", "crash") for _ in range(2))
                if ok3:
                    violations.append((cf, out.strip().splitlines()[-1] if out.strip() else st))

        # 2. generated search
        cases, budget = P[tier]
        procs = []
        outs = []
        for w in range(NWORKERS):
            out = os.path.join(work, "w%d.json" % w)
            outs.append(out)
            e = dict(env)
            e["RC_PARAMS"] = "seed=%d" % (seed * 1000003 + w * 7919 + 1)
            cmd = prlimit_cmd([exe, "--out", out, "--cases", str(cases), "--budget", str(budget)] + base_args)
            lf = open(os.path.join(work, "w%d.log" % w), "wb")
            procs.append((subprocess.Popen(cmd, env=e, stdout=lf, stderr=subprocess.STDOUT), lf, w))
        hard = budget * 2 + 120
        for p, lf, w in procs:
            try:
                p.wait(timeout=max(1, hard - (time.time() - t0)))
            except subprocess.TimeoutExpired:
                p.kill()
                p.wait()
                log("worker %d killed after hard limit (inconclusive, not a violation)" % w)
            lf.close()
        tot = merge_stats(outs)
        for k, v in tot["known"].items():
            known_hit[k] = known_hit.get(k, 0) + v

        # 3. failures reported by workers (shrunk by rapidcheck) and crashed workers
        cands = [f for f, _ in tot["failures"]]
        hung = []
        hang_checked = 0
        for p, lf, w in procs:
            if p.returncode == -9:
                # killed at the hard limit: a case that does not finish is "inconclusive"
                # here (hangs are judged by C15 with a dedicated watchdog), keep it for the log
                cur = outs[w] + ".current"
                if os.path.exists(cur):
                    hung.append(open(cur).read()[:600])
                    if P.get("hang_seconds") and hang_checked < 2 and not any("does not terminate" in m for _, m in violations):
                        # for properties whose cases are a compile and a few scans of small buffers
                        # (milliseconds), a case that does not finish alone, three times, within
                        # hang_seconds is a non-terminating compile / scan: the code under test hangs
                        hs = P["hang_seconds"]
                        hang_checked += 1  # every worker may be stuck on the same kind of case: two candidates are enough
                        r3 = []
                        for _ in range(3):
                            try:
                                subprocess.run(prlimit_cmd([exe, "--replay", cur] + base_args), env=env, stdout=subprocess.DEVNULL,
                                               stderr=subprocess.DEVNULL, timeout=hs)
                                r3.append(False)
                                break
                            except subprocess.TimeoutExpired:
                                r3.append(True)
                        if len(r3) == 3 and all(r3):
                            violations.append((keep_failure(pid, cur), "the case does not terminate: 3 of 3 single runs were still busy after %d s" % hs))
                continue
            if p.returncode not in (0, 10) or (p.returncode == 10 and not os.path.exists(outs[w])):
                cur = outs[w] + ".current"
                if os.path.exists(cur):
                    cands.append(cur)
                    log("worker %d died with status %s; last case kept" % (w, p.returncode))
                else:
                    log("worker %d exited with status %s and left no case" % (w, p.returncode))
                    with open(os.path.join(work, "w%d.log" % w), "rb") as fp:
                        sys.stderr.write(fp.read().decode(errors="replace")[-3000:])
        confirmed = []
        cands = sorted(set(cands), key=lambda f: os.path.getsize(f) if os.path.exists(f) else 1 << 30)
        for c in cands:
            if len(confirmed) >= 3:
                break  # three confirmed reproductions are enough; the smallest files first
            r = [replay_cmd(c) for _ in range(3)]
            if all(x[0] in ("fail", "crash") for x in r):
                size = len(open(c).read())
                msg = r[0][2].strip().splitlines()[-1] if r[0][2].strip() else r[0][0]
                confirmed.append((size, c, msg))
            else:
                log("failure %s did not reproduce 3x (%s) - dropped as flaky" % (c, [x[0] for x in r]))
        confirmed.sort()
        for size, c, msg in confirmed[:3]:
            violations.append((keep_failure(pid, c), msg))

        # 4. report
        wall = time.time() - t0
        listed = {k["signature"]: k for k in open_known(pid)}
        print_known(pid, listed, known_hit)
        cov = {
            "evaluations": tot["evaluations"] + replayed,
            "distinct_nontrivial": len(tot["nontrivial"]),
            "rule": P["rule"],
            "samples": tot["samples"][:8],
            "generated_cases": tot["cases"],
            "corpus_replayed": replayed,
            "classes": tot["classes"],
            "discards": tot["discards"],
            "known_findings_hit": known_hit,
            "workers": NWORKERS,
            "inconclusive_unfinished_cases": hung[:5],
            "engine": "rapidcheck (choice-tape generators, structural shrinking) + plain replay",
        }
        write_evidence(pid, tier, seed, wall, cov, len(violations), P.get("assumptions", []))
        log("%s %s: %d evaluations, %d distinct non-trivial, %.1fs, classes=%s discards=%s" % (
            pid, tier, cov["evaluations"], cov["distinct_nontrivial"], wall,
            json.dumps(tot["classes"], sort_keys=True), json.dumps(tot["discards"])))
        if violations:
            for path, msg in violations:
                print("VIOLATION property=%s replay=%s" % (pid, path))
                log("  " + msg)
            return 1
        floor = P.get("floor", 2)
        if len(tot["nontrivial"]) < floor:
            log("generator health: only %d non-trivial cases (floor %d) - check is broken" %
                (len(tot["nontrivial"]), floor))
            return 3
        return 0
    finally:
        shutil.rmtree(work, ignore_errors=True)


ENGINES = {"rc": run_rc}


def register_engine(name, fn):
    ENGINES[name] = fn


def main(argv):
    if not argv:
        print(__doc__ if __doc__ else "usage: check <ID>|setup|all")
        return 2
    cmd = argv[0]
    tier = os.environ.get("VERIF_TIER", "quick")
    seed = int(os.environ.get("VERIF_SEED", "1") or "1")
    replay = None
    i = 1
    while i < len(argv):
        if argv[i] == "--tier":
            tier = argv[i + 1]
            i += 2
        elif argv[i] == "--seed":
            seed = int(argv[i + 1])
            i += 2
        elif argv[i] == "--replay":
            replay = argv[i + 1]
            i += 2
        else:
            i += 1
    if tier not in ("quick", "thorough"):
        tier = "quick"
    if cmd == "setup":
        return setup()
    if cmd == "all":
        rc = 0
        for pid in sorted(PROPS):
            r = run_one(pid, tier, seed, None)
            rc = rc or r
        return rc
    if cmd not in PROPS:
        print("unknown property", cmd)
        return 2
    return run_one(cmd, tier, seed, replay)


def run_one(pid, tier, seed, replay):
    import engines  # registers the non-rapidcheck engines
    P = PROPS[pid]
    return ENGINES[P.get("engine", "rc")](pid, tier, seed, replay)


def setup():
    t0 = time.time()
    cfgs = sorted({P.get("config", "asan") for P in PROPS.values()})
    with ThreadPoolExecutor(4) as ex:
        list(ex.map(ybuild.build_lib, cfgs))
    jobs = []
    for pid, P in sorted(PROPS.items()):
        if P.get("engine", "rc") in ("rc", "fuzz", "rcfuzz") and P.get("src"):
            if P.get("extra_link"):
                jobs.append((P["src"], P.get("config", "asan"), P.get("variant", "rc"), tuple(P["extra_link"])))
                continue
            variants = P.get("variants", [P.get("variant", "rc")])
            for v in variants:
                jobs.append((P["src"], P.get("config", "asan"), v, tuple(P.get("extra_link", ()))))
    jobs = sorted(set(jobs))
    with ThreadPoolExecutor(16) as ex:
        list(ex.map(lambda j: ybuild.link_prop(j[0], config=j[1], variant=j[2], extra_link=j[3]), jobs))
    log("setup done in %.1fs" % (time.time() - t0))
    return 0
