#!/bin/bash
# usage: lib/runall.sh <tier> <outdir> [ids...]   - runs the checks one after another, logs per check
tier=$1; out=$2; shift 2
ids=${@:-C01 C02 C03 C04 C05 C06 C07 C08 C09 C10 C11 C12 C13 C14 C15 C16 C17 C18 C19 C20}
mkdir -p "$out"
for id in $ids; do
  t0=$(date +%s)
  /verif/check $id --tier $tier --seed ${VERIF_SEED:-1} > "$out/$id.log" 2>&1
  rc=$?
  echo "$id tier=$tier seed=${VERIF_SEED:-1} rc=$rc $(( $(date +%s) - t0 ))s violations=$(grep -c '^VIOLATION' "$out/$id.log") known=$(grep -c '^KNOWN-FINDING' "$out/$id.log")" >> "$out/summary.txt"
done
echo DONE >> "$out/summary.txt"
