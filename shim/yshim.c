/* The only harness file that includes YARA headers (DESIGN.md 2.2). */
#include "yshim.h"

#include <errno.h>
#include <fcntl.h>
#include <signal.h>
#include <pthread.h>
#include <stdarg.h>
#include <stdio.h>
#include <stdlib.h>
#include <string.h>
#include <sys/mman.h>
#include <sys/stat.h>
#include <sys/wait.h>
#include <spawn.h>
#include <unistd.h>

#include <yara.h>
#include <yara/compiler.h>
#include <yara/modules.h>
#include <yara/object.h>

#ifdef YARA_VERIF
extern size_t yr_verif_arena_initial_size;
#endif

/* The allocation-fault enumerator (C16) interposes malloc at link time; the
 * shim's own bookkeeping allocations are not part of the code under test, so
 * they are bracketed by these hooks (defined only in that harness). */
void ys_fault_suspend(void) __attribute__((weak));
void ys_fault_resume(void) __attribute__((weak));
#define HARNESS_ALLOC_BEGIN() do { if (ys_fault_suspend) ys_fault_suspend(); } while (0)
#define HARNESS_ALLOC_END() do { if (ys_fault_resume) ys_fault_resume(); } while (0)

/* ------------------------------------------------------------------ sbuf */
typedef struct
{
  char* p;
  size_t len, cap;
} sbuf;

static void sb_reserve(sbuf* b, size_t extra)
{
  if (b->len + extra + 1 > b->cap)
  {
    size_t nc = b->cap ? b->cap * 2 : 256;
    while (nc < b->len + extra + 1) nc *= 2;
    HARNESS_ALLOC_BEGIN();
    char* np = (char*) realloc(b->p, nc);
    HARNESS_ALLOC_END();
    if (np == NULL)
      abort();
    b->p = np;
    b->cap = nc;
  }
}

static void sb_printf(sbuf* b, const char* fmt, ...)
{
  va_list ap;
  char tmp[512];
  va_start(ap, fmt);
  int n = vsnprintf(tmp, sizeof(tmp), fmt, ap);
  va_end(ap);
  if (n < 0)
    return;
  if ((size_t) n < sizeof(tmp))
  {
    sb_reserve(b, n);
    memcpy(b->p + b->len, tmp, n);
    b->len += n;
  }
  else
  {
    sb_reserve(b, n + 1);
    va_start(ap, fmt);
    vsnprintf(b->p + b->len, n + 1, fmt, ap);
    va_end(ap);
    b->len += n;
  }
  b->p[b->len] = 0;
}

static void sb_escaped(sbuf* b, const char* s, size_t n)
{
  for (size_t i = 0; i < n; i++)
  {
    unsigned char c = (unsigned char) s[i];
    if (c >= 0x20 && c < 0x7f && c != '\\')
      sb_printf(b, "%c", c);
    else
      sb_printf(b, "\\x%02x", c);
  }
}

static char* sb_take(sbuf* b)
{
  if (b->p == NULL)
  {
    HARNESS_ALLOC_BEGIN();
    b->p = (char*) malloc(1);
    HARNESS_ALLOC_END();
    if (b->p == NULL)
      abort();
    b->p[0] = 0;
  }
  return b->p;
}

void ys_free(void* p) { free(p); }

/* ------------------------------------------------------------------ init */
int ys_initialize(void)
{
  /* the pipe feeder of ys_rules_load_mem keeps writing after a loader that rejected the header has
     closed its end: that must be an EPIPE for the feeder, not the death of the process */
  signal(SIGPIPE, SIG_IGN);
  return yr_initialize();
}
int ys_finalize(void) { return yr_finalize(); }

void ys_set_arena_initial_size(size_t n)
{
#ifdef YARA_VERIF
  yr_verif_arena_initial_size = n;
#else
  (void) n;
#endif
}

int ys_set_config(int name, uint64_t value)
{
  switch (name)
  {
  case 0:
    return yr_set_configuration_uint32(YR_CONFIG_STACK_SIZE, (uint32_t) value);
  case 1:
    return yr_set_configuration_uint32(YR_CONFIG_MAX_STRINGS_PER_RULE, (uint32_t) value);
  case 2:
    return yr_set_configuration_uint32(YR_CONFIG_MAX_MATCH_DATA, (uint32_t) value);
  case 3:
    return yr_set_configuration_uint64(YR_CONFIG_MAX_PROCESS_MEMORY_CHUNK, value);
  }
  return ERROR_INVALID_ARGUMENT;
}

/* -------------------------------------------------------------- compiler */
struct ys_compiler
{
  YR_COMPILER* c;
  sbuf diag;
  int err_callbacks;
  int bad_callbacks;
  int first_error;
  int ninc;
  const char** inc_names;
  const char** inc_contents;
};

static void compiler_cb(
    int level,
    const char* file_name,
    int line,
    const YR_RULE* rule,
    const char* message,
    void* user)
{
  ys_compiler* yc = (ys_compiler*) user;
  if (level == YARA_ERROR_LEVEL_ERROR)
  {
    yc->err_callbacks++;
    /* errors found at the end of a source are reported with line 0 by the lexer
     * (no current buffer any more): accepted, the property does not promise more
     * than "a line number" */
    if (message == NULL || message[0] == 0 || line < 0)
      yc->bad_callbacks++;
    if (yc->first_error == 0)
      yc->first_error = yc->c->last_error;
    sb_printf(&yc->diag, "E %d %d ", yc->c->last_error, line);
  }
  else
  {
    sb_printf(&yc->diag, "W 0 %d ", line);
  }
  if (message)
    sb_escaped(&yc->diag, message, strlen(message));
  sb_printf(&yc->diag, "\n");
}

static const char* include_cb(
    const char* name,
    const char* calling_file,
    const char* calling_ns,
    void* user)
{
  ys_compiler* yc = (ys_compiler*) user;
  for (int i = 0; i < yc->ninc; i++)
    if (strcmp(yc->inc_names[i], name) == 0)
      return yc->inc_contents[i];
  return NULL;
}

static void include_free_cb(const char* p, void* user) {}

ys_compiler* ys_compiler_new(int* err)
{
  HARNESS_ALLOC_BEGIN();
  ys_compiler* yc = (ys_compiler*) calloc(1, sizeof(*yc));
  HARNESS_ALLOC_END();
  if (yc == NULL)
  {
    if (err)
      *err = ERROR_INSUFFICIENT_MEMORY;
    return NULL;
  }
  int rc = yr_compiler_create(&yc->c);
  if (err)
    *err = rc;
  if (rc != ERROR_SUCCESS)
  {
    free(yc);
    return NULL;
  }
  yr_compiler_set_callback(yc->c, compiler_cb, yc);
  return yc;
}

void ys_compiler_free(ys_compiler* yc)
{
  if (yc == NULL)
    return;
  yr_compiler_destroy(yc->c);
  free(yc->diag.p);
  free(yc);
}

int ys_compiler_define(ys_compiler* yc, int type, const char* id, int64_t i, double f, const char* s)
{
  switch (type)
  {
  case YS_EXT_INT:
    return yr_compiler_define_integer_variable(yc->c, id, i);
  case YS_EXT_BOOL:
    return yr_compiler_define_boolean_variable(yc->c, id, (int) i);
  case YS_EXT_FLOAT:
    return yr_compiler_define_float_variable(yc->c, id, f);
  case YS_EXT_STR:
    return yr_compiler_define_string_variable(yc->c, id, s);
  }
  return ERROR_INVALID_ARGUMENT;
}

void ys_compiler_set_includes(ys_compiler* yc, int n, const char** names, const char** contents)
{
  yc->ninc = n;
  yc->inc_names = names;
  yc->inc_contents = contents;
  yr_compiler_set_include_callback(yc->c, include_cb, include_free_cb, yc);
}

void ys_compiler_set_atom_table(ys_compiler* yc, const void* table, int entries, unsigned char threshold)
{
  yr_compiler_set_atom_quality_table(yc->c, table, entries, threshold);
}

void ys_compiler_set_strict_escape(ys_compiler* yc, int on) { yc->c->strict_escape = on != 0; }

/* the name under which add_file / add_fd sources are reported (and relative to which `include`
   paths are resolved); callers may set a path with directories */
static char g_source_name[2048] = "";
void ys_set_source_name(const char* name)
{
  strncpy(g_source_name, name ? name : "", sizeof(g_source_name) - 1);
  g_source_name[sizeof(g_source_name) - 1] = 0;
}

int ys_compiler_add(ys_compiler* yc, int how, const char* src, size_t len, const char* ns)
{
  switch (how)
  {
  case YS_ADD_STRING:
    return yr_compiler_add_string(yc->c, src, ns);
  case YS_ADD_BYTES:
    return yr_compiler_add_bytes(yc->c, src, len, ns);
  case YS_ADD_FILE:
  {
    FILE* f = tmpfile();
    if (f == NULL)
      return yr_compiler_add_bytes(yc->c, src, len, ns);
    fwrite(src, 1, len, f);
    rewind(f);
    int r = yr_compiler_add_file(yc->c, f, ns, g_source_name[0] ? g_source_name : "memfile");
    fclose(f);
    return r;
  }
  case YS_ADD_FD:
  {
    int fd = memfd_create("ysrc", 0);
    if (fd < 0)
      return yr_compiler_add_bytes(yc->c, src, len, ns);
    size_t off = 0;
    while (off < len)
    {
      ssize_t w = write(fd, src + off, len - off);
      if (w <= 0)
        break;
      off += w;
    }
    lseek(fd, 0, SEEK_SET);
    int r = yr_compiler_add_fd(yc->c, fd, ns, g_source_name[0] ? g_source_name : "memfd");
    close(fd);
    return r;
  }
  }
  return -1;
}

const char* ys_compiler_diag(ys_compiler* yc) { return sb_take(&yc->diag); }
int ys_compiler_error_callbacks(ys_compiler* yc) { return yc->err_callbacks; }
int ys_compiler_bad_callbacks(ys_compiler* yc) { return yc->bad_callbacks; }
int ys_compiler_first_error(ys_compiler* yc) { return yc->first_error; }

struct ys_rules
{
  YR_RULES* r;
};

int ys_compiler_get_rules(ys_compiler* yc, ys_rules** out)
{
  *out = NULL;
  YR_RULES* r = NULL;
  int rc = yr_compiler_get_rules(yc->c, &r);
  if (rc != ERROR_SUCCESS)
    return rc;
  HARNESS_ALLOC_BEGIN();
  ys_rules* yr = (ys_rules*) calloc(1, sizeof(*yr));
  HARNESS_ALLOC_END();
  if (yr == NULL)
  {
    yr_rules_destroy(r);
    return ERROR_INSUFFICIENT_MEMORY;
  }
  yr->r = r;
  *out = yr;
  return rc;
}

int ys_compiler_arena_info(ys_compiler* yc, char* out, size_t outlen)
{
  YR_ARENA* a = yc->c->arena;
  size_t pos = 0;
  int grown = 0;
  out[0] = 0;
  for (uint32_t i = 0; i < a->num_buffers; i++)
  {
    int n = snprintf(out + pos, outlen - pos, "%zu/%zu ", a->buffers[i].size, a->buffers[i].used);
    if (n < 0 || (size_t) n >= outlen - pos)
      break;
    pos += n;
    size_t s = a->initial_buffer_size;
    while (s < a->buffers[i].size)
    {
      s *= 2;
      grown++;
    }
  }
  return grown;
}

/* ----------------------------------------------------------------- rules */
void ys_rules_free(ys_rules* r)
{
  if (r == NULL)
    return;
  yr_rules_destroy(r->r);
  free(r);
}

int ys_rules_define(ys_rules* r, int type, const char* id, int64_t i, double f, const char* s)
{
  switch (type)
  {
  case YS_EXT_INT:
    return yr_rules_define_integer_variable(r->r, id, i);
  case YS_EXT_BOOL:
    return yr_rules_define_boolean_variable(r->r, id, (int) i);
  case YS_EXT_FLOAT:
    return yr_rules_define_float_variable(r->r, id, f);
  case YS_EXT_STR:
    return yr_rules_define_string_variable(r->r, id, s);
  }
  return ERROR_INVALID_ARGUMENT;
}

typedef struct
{
  uint8_t* p;
  size_t len, cap, pos;
  int fail;
} memstream;

static size_t ms_write(const void* ptr, size_t size, size_t count, void* user)
{
  memstream* m = (memstream*) user;
  size_t n = size * count;
  if (m->len + n > m->cap)
  {
    size_t nc = m->cap ? m->cap * 2 : 4096;
    while (nc < m->len + n) nc *= 2;
    HARNESS_ALLOC_BEGIN();
    uint8_t* np = (uint8_t*) realloc(m->p, nc);
    HARNESS_ALLOC_END();
    if (np == NULL)
    {
      m->fail = 1;
      return 0;
    }
    m->p = np;
    m->cap = nc;
  }
  memcpy(m->p + m->len, ptr, n);
  m->len += n;
  return count;
}

static size_t ms_read(void* ptr, size_t size, size_t count, void* user)
{
  memstream* m = (memstream*) user;
  if (size == 0)
    return 0;
  size_t avail = (m->len - m->pos) / size;
  size_t n = count < avail ? count : avail;
  memcpy(ptr, m->p + m->pos, n * size);
  m->pos += n * size;
  return n;
}

int ys_rules_save_mem(ys_rules* r, uint8_t** data, size_t* len)
{
  memstream m;
  memset(&m, 0, sizeof(m));
  YR_STREAM st;
  st.user_data = &m;
  st.read = NULL;
  st.write = ms_write;
  int rc = yr_rules_save_stream(r->r, &st);
  if (rc != ERROR_SUCCESS)
  {
    free(m.p);
    *data = NULL;
    *len = 0;
    return rc;
  }
  *data = m.p;
  *len = m.len;
  return rc;
}

int ys_rules_save_file(ys_rules* r, const char* path) { return yr_rules_save(r->r, path); }

typedef struct
{
  int fd;
  const uint8_t* data;
  size_t len;
  const uint32_t* chunks;
  int nchunks;
} feeder;

static void* feeder_main(void* arg)
{
  feeder* f = (feeder*) arg;
  size_t off = 0;
  int k = 0;
  while (off < f->len)
  {
    size_t n = f->len - off;
    if (f->nchunks > 0)
    {
      size_t c = f->chunks[k % f->nchunks];
      k++;
      if (c == 0)
        c = 1;
      if (c < n)
        n = c;
    }
    ssize_t w = write(f->fd, f->data + off, n);
    if (w <= 0)
      break;
    off += w;
  }
  close(f->fd);
  return NULL;
}

static size_t file_read(void* ptr, size_t size, size_t count, void* user)
{
  return fread(ptr, size, count, (FILE*) user);
}

static int wrap_rules(int rc, YR_RULES* r, ys_rules** out)
{
  *out = NULL;
  if (rc != ERROR_SUCCESS)
    return rc;
  HARNESS_ALLOC_BEGIN();
  ys_rules* yr = (ys_rules*) calloc(1, sizeof(*yr));
  HARNESS_ALLOC_END();
  if (yr == NULL)
  {
    yr_rules_destroy(r);
    return ERROR_INSUFFICIENT_MEMORY;
  }
  yr->r = r;
  *out = yr;
  return rc;
}

int ys_rules_load_mem(const uint8_t* data, size_t len, int mode, const uint32_t* chunks,
                      int nchunks, ys_rules** out)
{
  YR_RULES* r = NULL;
  int rc;
  if (mode == 0)
  {
    memstream m;
    memset(&m, 0, sizeof(m));
    m.p = (uint8_t*) data;
    m.len = len;
    YR_STREAM st;
    st.user_data = &m;
    st.read = ms_read;
    st.write = NULL;
    rc = yr_rules_load_stream(&st, &r);
  }
  else
  {
    int fds[2];
    if (pipe(fds) != 0)
      return -1;
    feeder f = {fds[1], data, len, chunks, nchunks};
    pthread_t th;
    pthread_create(&th, NULL, feeder_main, &f);
    FILE* fp = fdopen(fds[0], "rb");
    /* unbuffered so that the library's reads see the chunking */
    if (mode == 2)
      setvbuf(fp, NULL, _IONBF, 0);
    YR_STREAM st;
    st.user_data = fp;
    st.read = file_read;
    st.write = NULL;
    rc = yr_rules_load_stream(&st, &r);
    fclose(fp);
    pthread_join(th, NULL);
  }
  return wrap_rules(rc, r, out);
}

int ys_rules_load_file(const char* path, ys_rules** out)
{
  YR_RULES* r = NULL;
  int rc = yr_rules_load(path, &r);
  return wrap_rules(rc, r, out);
}

char* ys_rules_describe(ys_rules* yr)
{
  sbuf b = {0};
  YR_RULE* rule;
  YR_EXTERNAL_VARIABLE* ext;
  yr_rules_foreach(yr->r, rule)
  {
    const char* tag;
    YR_META* meta;
    YR_STRING* str;
    sb_printf(&b, "rule %s:%s g=%d p=%d\n", rule->ns->name, rule->identifier,
              RULE_IS_GLOBAL(rule) ? 1 : 0, RULE_IS_PRIVATE(rule) ? 1 : 0);
    yr_rule_tags_foreach(rule, tag) { sb_printf(&b, " tag %s\n", tag); }
    yr_rule_metas_foreach(rule, meta)
    {
      if (meta->type == META_TYPE_STRING)
      {
        sb_printf(&b, " meta s %s=", meta->identifier);
        sb_escaped(&b, meta->string, strlen(meta->string));
        sb_printf(&b, "\n");
      }
      else
        sb_printf(&b, " meta %d %s=%lld\n", meta->type, meta->identifier, (long long) meta->integer);
    }
    yr_rule_strings_foreach(rule, str)
    {
      sb_printf(&b, " string %s flags=%x len=%d\n", str->identifier,
                str->flags & ~(STRING_FLAGS_FIXED_OFFSET | STRING_FLAGS_SINGLE_MATCH), str->length);
    }
  }
  for (ext = yr->r->ext_vars_table; ext != NULL && !EXTERNAL_VARIABLE_IS_NULL(ext); ext++)
  {
    switch (ext->type)
    {
    case EXTERNAL_VARIABLE_TYPE_INTEGER:
      sb_printf(&b, "ext i %s=%lld\n", ext->identifier, (long long) ext->value.i);
      break;
    case EXTERNAL_VARIABLE_TYPE_BOOLEAN:
      sb_printf(&b, "ext b %s=%lld\n", ext->identifier, (long long) ext->value.i);
      break;
    case EXTERNAL_VARIABLE_TYPE_FLOAT:
      sb_printf(&b, "ext f %s=%a\n", ext->identifier, ext->value.f);
      break;
    case EXTERNAL_VARIABLE_TYPE_STRING:
    case EXTERNAL_VARIABLE_TYPE_MALLOC_STRING:
      sb_printf(&b, "ext s %s=", ext->identifier);
      if (ext->value.s)
        sb_escaped(&b, ext->value.s, strlen(ext->value.s));
      else
        sb_printf(&b, "(null)");
      sb_printf(&b, "\n");
      break;
    }
  }
  return sb_take(&b);
}

/* --------------------------------------------------------------- scanner */
struct ys_scanner
{
  YR_SCANNER* s;
  ys_rules* rules;
};

ys_scanner* ys_scanner_new(ys_rules* r, int* err)
{
  YR_SCANNER* s = NULL;
  int rc = yr_scanner_create(r->r, &s);
  if (err)
    *err = rc;
  if (rc != ERROR_SUCCESS)
    return NULL;
  HARNESS_ALLOC_BEGIN();
  ys_scanner* ys = (ys_scanner*) calloc(1, sizeof(*ys));
  HARNESS_ALLOC_END();
  if (ys == NULL)
  {
    yr_scanner_destroy(s);
    if (err)
      *err = ERROR_INSUFFICIENT_MEMORY;
    return NULL;
  }
  ys->s = s;
  ys->rules = r;
  return ys;
}

void ys_scanner_free(ys_scanner* s)
{
  if (s == NULL)
    return;
  yr_scanner_destroy(s->s);
  free(s);
}

int ys_scanner_define(ys_scanner* s, int type, const char* id, int64_t i, double f, const char* str)
{
  switch (type)
  {
  case YS_EXT_INT:
    return yr_scanner_define_integer_variable(s->s, id, i);
  case YS_EXT_BOOL:
    return yr_scanner_define_boolean_variable(s->s, id, (int) i);
  case YS_EXT_FLOAT:
    return yr_scanner_define_float_variable(s->s, id, f);
  case YS_EXT_STR:
    return yr_scanner_define_string_variable(s->s, id, str);
  }
  return ERROR_INVALID_ARGUMENT;
}

void ys_scanner_set_flags(ys_scanner* s, int flags) { yr_scanner_set_flags(s->s, flags); }
void ys_scanner_set_timeout(ys_scanner* s, int t) { yr_scanner_set_timeout(s->s, t); }

/* ------------------------------------------------------------------ scan */
typedef struct
{
  sbuf out;
  const ys_scan_opts* o;
  int nmsg;
} scan_ctx;

static void emit_strings(scan_ctx* sc, YR_SCAN_CONTEXT* ctx, YR_RULE* rule)
{
  YR_STRING* str;
  yr_rule_strings_foreach(rule, str)
  {
    YR_MATCH* m;
    int n = 0;
    /* pieces of a split (chained) string other than its head carry no matches */
    if (str->chained_to != NULL)
      continue;
    for (m = ctx->matches[str->idx].head; m != NULL; m = m->next) n++;
    sb_printf(&sc->out, " s %s %d\n", str->identifier, n);
    for (m = ctx->matches[str->idx].head; m != NULL; m = m->next)
      sb_printf(&sc->out, "  m %lld %d %d %d\n", (long long) (m->base + m->offset),
                m->match_length, m->xor_key, m->is_private ? 1 : 0);
  }
}

static int scan_cb(YR_SCAN_CONTEXT* ctx, int message, void* data, void* user)
{
  scan_ctx* sc = (scan_ctx*) user;
  const ys_scan_opts* o = sc->o;
  int reply = CALLBACK_CONTINUE;
  sc->nmsg++;
  switch (message)
  {
  case CALLBACK_MSG_RULE_MATCHING:
  case CALLBACK_MSG_RULE_NOT_MATCHING:
  {
    YR_RULE* rule = (YR_RULE*) data;
    sb_printf(&sc->out, "%c %s:%s\n", message == CALLBACK_MSG_RULE_MATCHING ? 'M' : 'N',
              rule->ns->name, rule->identifier);
    if (o->with_strings)
      emit_strings(sc, ctx, rule);
    break;
  }
  case CALLBACK_MSG_SCAN_FINISHED:
    sb_printf(&sc->out, "F\n");
    break;
  case CALLBACK_MSG_IMPORT_MODULE:
  {
    YR_MODULE_IMPORT* mi = (YR_MODULE_IMPORT*) data;
    sb_printf(&sc->out, "I %s\n", mi->module_name);
    if (o->modname && strcmp(o->modname, mi->module_name) == 0)
    {
      mi->module_data = (void*) o->moddata;
      mi->module_data_size = o->moddata_len;
    }
    break;
  }
  case CALLBACK_MSG_MODULE_IMPORTED:
  {
    YR_OBJECT* obj = (YR_OBJECT*) data;
    sb_printf(&sc->out, "D %s\n", obj->identifier);
    break;
  }
  case CALLBACK_MSG_TOO_MANY_MATCHES:
  {
    YR_STRING* str = (YR_STRING*) data;
    YR_RULE* rule = &ctx->rules->rules_table[str->rule_idx];
    sb_printf(&sc->out, "T %s:%s %s\n", rule->ns->name, rule->identifier, str->identifier);
    reply = o->toomany_action;
    break;
  }
  case CALLBACK_MSG_CONSOLE_LOG:
    sb_printf(&sc->out, "L ");
    sb_escaped(&sc->out, (const char*) data, strlen((const char*) data));
    sb_printf(&sc->out, "\n");
    break;
  case CALLBACK_MSG_TOO_SLOW_SCANNING:
    sb_printf(&sc->out, "W\n");
    break;
  default:
    sb_printf(&sc->out, "? %d\n", message);
  }
  if (o->yield_us > 0)
    usleep(o->yield_us);
  else if (o->yield_us < 0)
    sched_yield();
  if (o->script_k > 0 && sc->nmsg == o->script_k)
    reply = o->script_action;
  return reply;
}

typedef struct
{
  const uint8_t* data;
  size_t len;
  const ys_scan_opts* o;
  int ncalls;    /* iterator calls so far (first + next) in the whole scan */
  int cur;       /* index of current block, -1 before first */
  size_t cur_off;
  YR_MEMORY_BLOCK block;
  int nblocks;
  uint32_t one;
} blk_ctx;

/* a page-aligned mapping of a file that was truncated after being mapped: every
 * access to it raises SIGBUS, as for a file that shrinks while it is scanned */
static const uint8_t* truncated_mapping(void)
{
  static uint8_t* map = NULL;
  static pthread_mutex_t mu = PTHREAD_MUTEX_INITIALIZER;
  pthread_mutex_lock(&mu);
  if (map == NULL)
  {
    int fd = memfd_create("ytrunc", 0);
    if (fd >= 0 && ftruncate(fd, 1 << 20) == 0)
    {
      void* m = mmap(NULL, 1 << 20, PROT_READ, MAP_SHARED, fd, 0);
      if (m != MAP_FAILED)
      {
        if (ftruncate(fd, 0) == 0)
          map = (uint8_t*) m;
      }
    }
    /* the descriptor stays open on purpose */
  }
  pthread_mutex_unlock(&mu);
  return map;
}

static const uint8_t* blk_fetch(YR_MEMORY_BLOCK* b)
{
  blk_ctx* bc = (blk_ctx*) b->context;
  if (bc->o->park_us > 0)
    usleep(bc->o->park_us);
  if (bc->o->fault_block > 0 && bc->cur == bc->o->fault_block - 1)
  {
    const uint8_t* t = truncated_mapping();
    if (t != NULL)
      return t;
  }
  return bc->data + bc->cur_off;
}

static size_t blk_size(blk_ctx* bc, int i)
{
  if (bc->o->nblocks <= 0)
    return bc->len;
  return bc->o->block_sizes[i];
}

static YR_MEMORY_BLOCK* blk_get(YR_MEMORY_BLOCK_ITERATOR* it, int idx)
{
  blk_ctx* bc = (blk_ctx*) it->context;
  int call = bc->ncalls++;
  if (call < 64 && (bc->o->notready_mask >> call) & 1)
  {
    it->last_error = ERROR_BLOCK_NOT_READY;
    return NULL;
  }
  it->last_error = ERROR_SUCCESS;
  if (idx >= bc->nblocks)
    return NULL;
  size_t off = 0;
  for (int i = 0; i < idx; i++) off += blk_size(bc, i);
  bc->cur = idx;
  bc->cur_off = off;
  bc->block.size = blk_size(bc, idx);
  bc->block.base = (uint64_t) (bc->o->base + (int64_t) off);
  bc->block.context = bc;
  bc->block.fetch_data = blk_fetch;
  return &bc->block;
}

static YR_MEMORY_BLOCK* blk_first(YR_MEMORY_BLOCK_ITERATOR* it) { return blk_get(it, 0); }

static YR_MEMORY_BLOCK* blk_next(YR_MEMORY_BLOCK_ITERATOR* it)
{
  blk_ctx* bc = (blk_ctx*) it->context;
  return blk_get(it, bc->cur + 1);
}

static uint64_t blk_filesize(YR_MEMORY_BLOCK_ITERATOR* it)
{
  blk_ctx* bc = (blk_ctx*) it->context;
  return bc->len;
}

static int data_fd(const uint8_t* data, size_t len)
{
  int fd = memfd_create("ydata", 0);
  if (fd < 0)
    return -1;
  size_t off = 0;
  while (off < len)
  {
    ssize_t w = write(fd, data + off, len - off);
    if (w <= 0)
      break;
    off += w;
  }
  lseek(fd, 0, SEEK_SET);
  return fd;
}

int ys_scan(ys_rules* r, ys_scanner* s, const uint8_t* data, size_t len,
            const ys_scan_opts* o, char** trace)
{
  scan_ctx sc;
  memset(&sc, 0, sizeof(sc));
  sc.o = o;
  int rc = 0;
  static const uint8_t empty[1] = {0};
  if (data == NULL)
    data = empty;

  if (s != NULL)
  {
    yr_scanner_set_callback(s->s, scan_cb, &sc);
    if (!o->skip_set)
    {
      yr_scanner_set_flags(s->s, o->flags);
      yr_scanner_set_timeout(s->s, o->timeout);
    }
  }

  switch (o->entry)
  {
  case YS_SCAN_MEM:
  {
    /* scan an exact-size heap copy: the caller's buffer (a std::string) has a
     * terminating NUL and spare capacity that would hide a read past the end
     * from AddressSanitizer */
    HARNESS_ALLOC_BEGIN();
    uint8_t* exact = (uint8_t*) malloc(len);
    HARNESS_ALLOC_END();
    if (exact == NULL && len > 0)
    {
      rc = -3;
      break;
    }
    if (len > 0)
      memcpy(exact, data, len);
    if (s)
      rc = yr_scanner_scan_mem(s->s, exact, len);
    else
      rc = yr_rules_scan_mem(r->r, exact, len, o->flags, scan_cb, &sc, o->timeout);
    free(exact);
    break;
  }
  case YS_SCAN_FILE:
  case YS_SCAN_FD:
  {
    if (o->entry == YS_SCAN_FILE && o->scan_path)
    {
      if (s)
        rc = yr_scanner_scan_file(s->s, o->scan_path);
      else
        rc = yr_rules_scan_file(r->r, o->scan_path, o->flags, scan_cb, &sc, o->timeout);
      break;
    }
    int fd = data_fd(data, len);
    if (fd < 0)
    {
      rc = -1;
      break;
    }
    if (o->entry == YS_SCAN_FD)
    {
      if (s)
        rc = yr_scanner_scan_fd(s->s, fd);
      else
        rc = yr_rules_scan_fd(r->r, fd, o->flags, scan_cb, &sc, o->timeout);
      /* the descriptor belongs to the caller: it must still be open, and a scan must not
         depend on (or move) its file offset in a way that breaks a second use */
      if (fcntl(fd, F_GETFD) == -1)
        rc = YS_ERR_FD_CLOSED_BY_LIBRARY;
    }
    else
    {
      char path[64];
      snprintf(path, sizeof(path), "/proc/self/fd/%d", fd);
      if (s)
        rc = yr_scanner_scan_file(s->s, path);
      else
        rc = yr_rules_scan_file(r->r, path, o->flags, scan_cb, &sc, o->timeout);
    }
    close(fd);
    break;
  }
  case YS_SCAN_BLOCKS:
  {
    blk_ctx bc;
    memset(&bc, 0, sizeof(bc));
    HARNESS_ALLOC_BEGIN();
    uint8_t* exact = (uint8_t*) malloc(len);
    HARNESS_ALLOC_END();
    if (exact != NULL && len > 0)
      memcpy(exact, data, len);
    if (exact != NULL || len == 0)
      data = exact;
    bc.data = data;
    bc.len = len;
    bc.o = o;
    bc.cur = -1;
    bc.nblocks = o->nblocks > 0 ? o->nblocks : 1;
    YR_MEMORY_BLOCK_ITERATOR it;
    memset(&it, 0, sizeof(it));
    it.context = &bc;
    it.first = blk_first;
    it.next = blk_next;
    it.file_size = o->no_filesize ? NULL : blk_filesize;
    it.last_error = ERROR_SUCCESS;
    if (s == NULL)
    {
      rc = yr_rules_scan_mem_blocks(r->r, &it, o->flags, scan_cb, &sc, o->timeout);
    }
    else
    {
      int notready = 0;
      for (;;)
      {
        rc = yr_scanner_scan_mem_blocks(s->s, &it);
        if (rc != ERROR_BLOCK_NOT_READY)
          break;
        notready++;
        sb_printf(&sc.out, "B %d\n", sc.nmsg);
        if (o->abandon_after > 0 && notready >= o->abandon_after)
          break;
        if (notready > 200)
          break;
        if (o->resume_sleep_us > 0)
          usleep(o->resume_sleep_us);
      }
    }
    free(exact);
    break;
  }
  case YS_SCAN_PROC:
    if (s)
      rc = yr_scanner_scan_proc(s->s, o->pid);
    else
      rc = yr_rules_scan_proc(r->r, o->pid, o->flags, scan_cb, &sc, o->timeout);
    break;
  default:
    rc = -2;
  }
  sb_printf(&sc.out, "R %d\n", rc);
  *trace = sb_take(&sc.out);
  return rc;
}

/* ------------------------------------------------------- idle child process */
extern char** environ;
int ys_spawn_idle(void)
{
  pid_t pid = -1;
  char* argv[] = {(char*) "sleep", (char*) "600", NULL};
  HARNESS_ALLOC_BEGIN();
  int rc = posix_spawn(&pid, "/bin/sleep", NULL, NULL, argv, environ);
  HARNESS_ALLOC_END();
  if (rc != 0)
    return -1;
  usleep(50000); /* let it reach nanosleep */
  return (int) pid;
}

void ys_kill_idle(int pid)
{
  if (pid > 0)
  {
    kill(pid, SIGKILL);
    waitpid(pid, NULL, 0);
  }
}

/* --------------------------------------------------- module introspection */
static void decl_walk(sbuf* b, YR_OBJECT* obj, int depth)
{
  for (int i = 0; i < depth; i++) sb_printf(b, " ");
  switch (obj->type)
  {
  case OBJECT_TYPE_INTEGER:
    sb_printf(b, "i %s\n", obj->identifier);
    break;
  case OBJECT_TYPE_FLOAT:
    sb_printf(b, "f %s\n", obj->identifier);
    break;
  case OBJECT_TYPE_STRING:
    sb_printf(b, "s %s\n", obj->identifier);
    break;
  case OBJECT_TYPE_STRUCTURE:
  {
    sb_printf(b, "{ %s\n", obj->identifier);
    YR_STRUCTURE_MEMBER* m = object_as_structure(obj)->members;
    for (; m != NULL; m = m->next) decl_walk(b, m->object, depth + 1);
    for (int i = 0; i < depth; i++) sb_printf(b, " ");
    sb_printf(b, "}\n");
    break;
  }
  case OBJECT_TYPE_ARRAY:
    sb_printf(b, "[ %s\n", obj->identifier);
    decl_walk(b, object_as_array(obj)->prototype_item, depth + 1);
    for (int i = 0; i < depth; i++) sb_printf(b, " ");
    sb_printf(b, "]\n");
    break;
  case OBJECT_TYPE_DICTIONARY:
    sb_printf(b, "< %s\n", obj->identifier);
    decl_walk(b, object_as_dictionary(obj)->prototype_item, depth + 1);
    for (int i = 0; i < depth; i++) sb_printf(b, " ");
    sb_printf(b, ">\n");
    break;
  case OBJECT_TYPE_FUNCTION:
  {
    YR_OBJECT_FUNCTION* f = object_as_function(obj);
    char rt = '?';
    if (f->return_obj)
    {
      switch (f->return_obj->type)
      {
      case OBJECT_TYPE_INTEGER:
        rt = 'i';
        break;
      case OBJECT_TYPE_FLOAT:
        rt = 'f';
        break;
      case OBJECT_TYPE_STRING:
        rt = 's';
        break;
      }
    }
    sb_printf(b, "( %s %c", obj->identifier, rt);
    for (int i = 0; i < YR_MAX_OVERLOADED_FUNCTIONS; i++)
      if (f->prototypes[i].arguments_fmt != NULL)
        sb_printf(b, " '%s'", f->prototypes[i].arguments_fmt);
    sb_printf(b, "\n");
    break;
  }
  }
}

char* ys_module_declarations(const char* name)
{
  YR_OBJECT* root = NULL;
  if (yr_object_create(OBJECT_TYPE_STRUCTURE, name, NULL, &root) != ERROR_SUCCESS)
    return NULL;
  if (yr_modules_do_declarations(name, root) != ERROR_SUCCESS)
  {
    yr_object_destroy(root);
    return NULL;
  }
  sbuf b = {0};
  decl_walk(&b, root, 0);
  yr_object_destroy(root);
  return sb_take(&b);
}
