/* Plain-C interface between the verification harness and libyara.
 * yshim.c is the only harness file that includes YARA headers. */
#ifndef YSHIM_H
#define YSHIM_H
#include <stddef.h>
#include <stdint.h>

#ifdef __cplusplus
extern "C" {
#endif

typedef struct ys_compiler ys_compiler;
typedef struct ys_rules ys_rules;
typedef struct ys_scanner ys_scanner;

/* external variable types */
#define YS_EXT_INT 1
#define YS_EXT_BOOL 2
#define YS_EXT_FLOAT 3
#define YS_EXT_STR 4

/* how source text is handed to the compiler */
#define YS_ADD_STRING 0
#define YS_ADD_BYTES 1
#define YS_ADD_FILE 2
#define YS_ADD_FD 3

/* scan entry points */
#define YS_SCAN_MEM 0
#define YS_SCAN_FILE 1
#define YS_SCAN_FD 2
#define YS_SCAN_BLOCKS 3
#define YS_SCAN_PROC 4 /* yr_*_scan_proc(opts.pid); data/len unused */

int ys_initialize(void);
int ys_finalize(void);
void ys_set_arena_initial_size(size_t n); /* YARA_VERIF hook; 0 = stock */
int ys_set_config(int name, uint64_t value); /* 0 stack, 1 strings/rule, 2 match data */

ys_compiler* ys_compiler_new(int* err);
void ys_compiler_free(ys_compiler* c);
int ys_compiler_define(ys_compiler* c, int type, const char* id, int64_t i, double f, const char* s);
/* include callback serving a fixed table (pointers must outlive the compiler) */
void ys_compiler_set_includes(ys_compiler* c, int n, const char** names, const char** contents);
void ys_compiler_set_atom_table(ys_compiler* c, const void* table, int entries, unsigned char threshold);
void ys_compiler_set_strict_escape(ys_compiler* c, int on);
/* returns the number of errors reported by yr_compiler_add_* */
void ys_set_source_name(const char* name); /* name given to add_file / add_fd sources; NULL or "" = default */
int ys_compiler_add(ys_compiler* c, int how, const char* src, size_t len, const char* ns);
/* accumulated diagnostics: "E <code> <line> <msg>\n" / "W 0 <line> <msg>\n" */
const char* ys_compiler_diag(ys_compiler* c);
int ys_compiler_error_callbacks(ys_compiler* c);   /* number of ERROR-level callbacks */
int ys_compiler_bad_callbacks(ys_compiler* c);     /* ERROR callbacks with empty message or line < 0 */
int ys_compiler_first_error(ys_compiler* c);       /* first error code seen, 0 if none */
int ys_compiler_get_rules(ys_compiler* c, ys_rules** out);
/* "size/used" of every arena buffer, space separated, and number of growths */
int ys_compiler_arena_info(ys_compiler* c, char* out, size_t outlen);

void ys_rules_free(ys_rules* r);
int ys_rules_define(ys_rules* r, int type, const char* id, int64_t i, double f, const char* s);
/* save through an in-memory stream; *data malloc'd */
/* returned by ys_scan instead of the library's code when an fd scan closed the caller's descriptor */
#define YS_ERR_FD_CLOSED_BY_LIBRARY 9001
int ys_rules_save_mem(ys_rules* r, uint8_t** data, size_t* len);
int ys_rules_save_file(ys_rules* r, const char* path);
/* load from memory; mode 0: exact in-memory stream, 1: pipe-backed FILE* fed in
 * chunks (chunk sizes cycle through `chunks`, nchunks may be 0 => one chunk) */
int ys_rules_load_mem(const uint8_t* data, size_t len, int mode, const uint32_t* chunks,
                      int nchunks, ys_rules** out);
int ys_rules_load_file(const char* path, ys_rules** out);
/* textual listing of rules / tags / metas / strings / externals; malloc'd */
char* ys_rules_describe(ys_rules* r);

typedef struct ys_scan_opts
{
  int entry;          /* YS_SCAN_* */
  int flags;          /* SCAN_FLAGS_* (scanner: applied with set_flags before the scan) */
  int timeout;        /* seconds, 0 none */
  int script_k;       /* reply script_action to the k-th callback message (1-based), 0 never */
  int script_action;  /* 1 abort, 2 error */
  int toomany_action; /* reply to TOO_MANY_MATCHES: 0 continue, 1 abort, 2 error */
  int with_strings;   /* list per-string matches after every rule message */
  int nblocks;        /* YS_SCAN_BLOCKS: partition of the data (0 => one block) */
  const uint32_t* block_sizes;
  uint64_t notready_mask; /* bit i: the i-th iterator call of the whole scan reports NOT_READY */
  int abandon_after;  /* >0: give up after that many NOT_READY returns */
  int no_filesize;    /* iterator without file_size function */
  int64_t base;       /* base address of first block */
  const char* modname; /* module data handed over in the import callback */
  const void* moddata;
  size_t moddata_len;
  int yield_us;       /* callback sleeps this long (C09 perturbation) */
  int skip_set;       /* scanner: do not touch flags/timeout (history tests set them themselves) */
  int fault_block;    /* YS_SCAN_BLOCKS: the data of this block (1-based) lies in a mapping of a file that
                         has been truncated, so reading it raises SIGBUS inside the library; 0 = none */
  int park_us;        /* YS_SCAN_BLOCKS: fetch_data sleeps this long before returning */
  int resume_sleep_us; /* YS_SCAN_BLOCKS with a scanner: wait this long before resuming after NOT_READY */
  int pid;            /* YS_SCAN_PROC */
  const char* scan_path; /* YS_SCAN_FILE: scan this existing path instead of `data` (e.g. a file that cannot be mapped) */
} ys_scan_opts;

/* scanner == NULL: yr_rules_scan_* ; otherwise yr_scanner_scan_*.  trace malloc'd. */
int ys_scan(ys_rules* r, ys_scanner* s, const uint8_t* data, size_t len,
            const ys_scan_opts* o, char** trace);

/* an idle child process (/bin/sleep) to scan through the process-memory entry points; -1 on failure */
int ys_spawn_idle(void);
void ys_kill_idle(int pid);
ys_scanner* ys_scanner_new(ys_rules* r, int* err);
void ys_scanner_free(ys_scanner* s);
int ys_scanner_define(ys_scanner* s, int type, const char* id, int64_t i, double f, const char* s_);
void ys_scanner_set_flags(ys_scanner* s, int flags);
void ys_scanner_set_timeout(ys_scanner* s, int timeout);

/* module introspection: textual declaration tree of a module, malloc'd (NULL if unknown) */
char* ys_module_declarations(const char* name);

void ys_free(void* p);

#ifdef __cplusplus
}
#endif
#endif
