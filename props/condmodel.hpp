// Condition language: typed AST, minimal-parentheses printer, reference
// interpreter (DESIGN.md 3.4) and generator.  The interpreter follows
// docs/writingrules.rst; behaviours the manual does not spell out are listed as
// assumptions in lib/props.py (C04) and marked ASSUMPTION below.
#pragma once
#include <cmath>
#include "textmodel.hpp"

struct Val
{
  enum T
  {
    UNDEF,
    BOOL,
    INT,
    FLT,
    STR
  } t = UNDEF;
  int64_t i = 0;
  double f = 0;
  bytes s;
  static Val undef() { return Val(); }
  static Val b(bool v)
  {
    Val x;
    x.t = BOOL;
    x.i = v;
    return x;
  }
  static Val in(int64_t v)
  {
    Val x;
    x.t = INT;
    x.i = v;
    return x;
  }
  static Val fl(double v)
  {
    Val x;
    x.t = FLT;
    x.f = v;
    return x;
  }
  static Val st(const bytes& v)
  {
    Val x;
    x.t = STR;
    x.s = v;
    return x;
  }
  bool defined() const { return t != UNDEF; }
};

enum Ty
{
  TB,
  TI,
  TF,
  TS
};

struct Expr
{
  enum K
  {
    // integers
    INT_LIT,
    FILESIZE,
    COUNT,      // #s            sidx
    COUNT_IN,   // #s in (a..b)  sidx, ch[0], ch[1]
    OFFSET,     // @s[i] / @s    sidx, ch[0] optional
    LENGTH,     // !s[i] / !s
    READ,       // intXX(e)      rd
    ARITH,      // op in + - * \ % & | ^ << >>   (int or float)
    NEG,
    BITNOT,
    EXT,        // external variable `name`
    LOOPVAR,    // loop variable `name`
    FLT_LIT,
    STR_LIT,
    // booleans
    BOOL_LIT,
    FOUND,      // $s
    FOUND_AT,   // $s at e
    FOUND_IN,   // $s in (a..b)
    CMP,        // < <= > >= == != on numbers or strings
    STROP,      // contains icontains startswith istartswith endswith iendswith iequals
    NOT,
    DEFINED,
    AND,
    OR,
    OF,         // Q of S [in (a..b) | at e]
    FOR_OF,     // for Q of S : ( body )
    FOR_RANGE,  // for Q v in (a..b) : ( body )
    FOR_ENUM,   // for Q v in (e1, e2, ..) : ( body )   (ints or text strings)
    RULE_REF,
    OF_RULES    // Q of (r1, q*)   rule set: rnames = the member rules, set_text = printed form
  } k = BOOL_LIT;
  Ty ty = TB;
  int64_t ival = 0;
  int lit_form = 0;  // 0 dec, 1 hex, 2 octal, 3 KB, 4 MB
  double fval = 0;
  bytes sval;
  std::string name;  // EXT / LOOPVAR / RULE_REF / op spelling for ARITH, CMP, STROP
  int sidx = -1;     // string index, -1 = the anonymous `$` of an enclosing for..of
  int rd = 0;        // READ: 0 int8 1 int16 2 int32 3 uint8 4 uint16 5 uint32, +6 for be
  std::vector<Expr> ch;
  // quantifier (OF / FOR_*): 0 all, 1 any, 2 none, 3 expression qe[0], 4 percentage qe[0]
  int q = 1;
  std::vector<Expr> qe;
  // string set (OF / FOR_OF)
  std::vector<int> set;
  std::string set_text;  // printed form: "them", "($*)", "($_s*)", "($_s1, $_t1)"
  int of_form = 0;       // OF: 0 plain, 1 in (ch[0]..ch[1]), 2 at ch[0]
  std::vector<std::string> rnames;  // OF_RULES: the rules the set expands to, in definition order
};

// ---------------------------------------------------------------- printer
static int expr_level(const Expr& e)
{
  switch (e.k)
  {
  case Expr::OR:
    return 13;
  case Expr::AND:
    return 12;
  case Expr::NOT:
  case Expr::DEFINED:
    return 11;
  case Expr::STROP:
    return 10;
  case Expr::CMP:
    return (e.name == "==" || e.name == "!=") ? 10 : 9;
  case Expr::ARITH:
    if (e.name == "|")
      return 8;
    if (e.name == "^")
      return 7;
    if (e.name == "&")
      return 6;
    if (e.name == "<<" || e.name == ">>")
      return 5;
    if (e.name == "+" || e.name == "-")
      return 4;
    return 3;
  case Expr::NEG:
  case Expr::BITNOT:
    return 2;
  case Expr::FOUND_AT:
  case Expr::FOUND_IN:
  case Expr::COUNT_IN:
  case Expr::OF:
  case Expr::OF_RULES:
  case Expr::FOR_OF:
  case Expr::FOR_RANGE:
  case Expr::FOR_ENUM:
    return 10;  // boolean-level constructs: parenthesised inside arithmetic / comparisons
  default:
    return 1;
  }
}

static const char* READ_NAMES[] = {"int8",   "int16",   "int32",   "uint8",   "uint16",   "uint32",
                                   "int8be", "int16be", "int32be", "uint8be", "uint16be", "uint32be"};

struct PrintCtx
{
  const std::vector<std::string>* str_ids;
};

static std::string print_expr(const Expr& e, const PrintCtx& pc);

static std::string paren_if(const Expr& c, int maxlevel, const PrintCtx& pc)
{
  std::string s = print_expr(c, pc);
  return expr_level(c) > maxlevel ? "(" + s + ")" : s;
}

static std::string sid(const Expr& e, const PrintCtx& pc, char sigil)
{
  std::string id = e.sidx < 0 ? "$" : (*pc.str_ids)[e.sidx];
  id[0] = sigil;
  return id;
}

static std::string print_quant(const Expr& e, const PrintCtx& pc)
{
  switch (e.q)
  {
  case 0:
    return "all";
  case 1:
    return "any";
  case 2:
    return "none";
  case 3:
    return paren_if(e.qe[0], 8, pc);
  default:
    return paren_if(e.qe[0], 1, pc) + "%";
  }
}

static std::string print_expr(const Expr& e, const PrintCtx& pc)
{
  switch (e.k)
  {
  case Expr::INT_LIT:
    switch (e.lit_form)
    {
    case 1:
      return strf("0x%llx", (long long) e.ival);
    case 2:
      return strf("0o%llo", (long long) e.ival);
    case 3:
      return strf("%lldKB", (long long) (e.ival / 1024));
    case 4:
      return strf("%lldMB", (long long) (e.ival / 1048576));
    default:
      return strf("%lld", (long long) e.ival);
    }
  case Expr::FLT_LIT:
    return strf("%.2f", e.fval);
  case Expr::STR_LIT:
    return text_literal(e.sval);
  case Expr::BOOL_LIT:
    return e.ival ? "true" : "false";
  case Expr::FILESIZE:
    return "filesize";
  case Expr::COUNT:
    return sid(e, pc, '#');
  case Expr::COUNT_IN:
    return sid(e, pc, '#') + " in (" + paren_if(e.ch[0], 8, pc) + ".." + paren_if(e.ch[1], 8, pc) + ")";
  case Expr::OFFSET:
    return sid(e, pc, '@') + (e.ch.empty() ? "" : "[" + print_expr(e.ch[0], pc) + "]");
  case Expr::LENGTH:
    return sid(e, pc, '!') + (e.ch.empty() ? "" : "[" + print_expr(e.ch[0], pc) + "]");
  case Expr::READ:
    return std::string(READ_NAMES[e.rd]) + "(" + print_expr(e.ch[0], pc) + ")";
  case Expr::ARITH:
  {
    int l = expr_level(e);
    return paren_if(e.ch[0], l, pc) + " " + e.name + " " + paren_if(e.ch[1], l - 1, pc);
  }
  case Expr::NEG:
  case Expr::BITNOT:
  {
    std::string c = print_expr(e.ch[0], pc);
    bool par = expr_level(e.ch[0]) > 1 || (e.ch[0].k == Expr::INT_LIT && e.ch[0].ival < 0) ||
               (e.ch[0].k == Expr::FLT_LIT && e.ch[0].fval < 0);
    return std::string(e.k == Expr::NEG ? "-" : "~") + (par ? "(" + c + ")" : c);
  }
  case Expr::EXT:
  case Expr::LOOPVAR:
  case Expr::RULE_REF:
    return e.name;
  case Expr::FOUND:
    return sid(e, pc, '$');
  case Expr::FOUND_AT:
    return sid(e, pc, '$') + " at " + paren_if(e.ch[0], 8, pc);
  case Expr::FOUND_IN:
    return sid(e, pc, '$') + " in (" + paren_if(e.ch[0], 8, pc) + ".." + paren_if(e.ch[1], 8, pc) + ")";
  case Expr::CMP:
  case Expr::STROP:
  {
    // operands are primary expressions (arithmetic level at most)
    int l = expr_level(e);
    int opl = l == 10 ? 9 : 8;
    (void) opl;
    return paren_if(e.ch[0], 8, pc) + " " + e.name + " " + paren_if(e.ch[1], 8, pc);
  }
  case Expr::NOT:
    return "not " + paren_if(e.ch[0], 11, pc);
  case Expr::DEFINED:
    return "defined " + paren_if(e.ch[0], 11, pc);
  case Expr::AND:
    return paren_if(e.ch[0], 12, pc) + " and " + paren_if(e.ch[1], 11, pc);
  case Expr::OR:
    return paren_if(e.ch[0], 13, pc) + " or " + paren_if(e.ch[1], 12, pc);
  case Expr::OF:
  {
    std::string s = print_quant(e, pc) + " of " + e.set_text;
    if (e.of_form == 1)
      s += " in (" + paren_if(e.ch[0], 8, pc) + ".." + paren_if(e.ch[1], 8, pc) + ")";
    else if (e.of_form == 2)
      s += " at " + paren_if(e.ch[0], 8, pc);
    return s;
  }
  case Expr::OF_RULES:
    return print_quant(e, pc) + " of " + e.set_text;
  case Expr::FOR_OF:
    return "for " + print_quant(e, pc) + " of " + e.set_text + " : (" + print_expr(e.ch[0], pc) + ")";
  case Expr::FOR_RANGE:
    return "for " + print_quant(e, pc) + " " + e.name + " in (" + paren_if(e.ch[1], 8, pc) + ".." +
           paren_if(e.ch[2], 8, pc) + ") : (" + print_expr(e.ch[0], pc) + ")";
  case Expr::FOR_ENUM:
  {
    std::string s = "for " + print_quant(e, pc) + " " + e.name + " in (";
    for (size_t i = 1; i < e.ch.size(); i++) s += (i > 1 ? ", " : "") + paren_if(e.ch[i], 8, pc);
    return s + ") : (" + print_expr(e.ch[0], pc) + ")";
  }
  }
  return "?";
}

// ------------------------------------------------------------- interpreter
struct EvalCtx
{
  const bytes* buf = nullptr;
  std::vector<std::vector<MatchRec>> matches;  // per string: ascending (off, len)
  std::map<std::string, Val> ext;
  std::map<std::string, bool> rules;
  std::map<std::string, Val> loopvars;
  int cur = -1;  // string bound to `$` inside for..of
  // departures from the manual that were observed (for known-finding signatures)
  bool saw_undef_quantifier = false, saw_undef_loop_bound = false;
};

static inline bool truthy(const Val& v) { return v.t == Val::BOOL && v.i != 0; }

static Val eval(const Expr& e, EvalCtx& cx);

static const std::vector<MatchRec>& mlist(const Expr& e, EvalCtx& cx)
{
  return cx.matches[e.sidx < 0 ? cx.cur : e.sidx];
}

// quantifier outcome given `found` successes out of `total` candidates
static Val quant_result(const Expr& e, EvalCtx& cx, int64_t found, int64_t total, bool is_loop)
{
  if (is_loop && total == 0)
    return Val::b(false);  // ASSUMPTION: a loop without iterations is false (exec.c OP_ITER_END)
  switch (e.q)
  {
  case 0:
    return Val::b(found >= total);
  case 1:
    return Val::b(found >= 1);
  case 2:
    return Val::b(found == 0);
  case 3:
  {
    Val n = eval(e.qe[0], cx);
    if (!n.defined())
    {
      cx.saw_undef_quantifier = true;
      return Val::undef();
    }
    if (n.i == 0)
      return Val::b(found == 0);  // manual: "0 of them" is true if exactly 0 match
    return Val::b(found >= n.i);
  }
  default:
  {
    Val p = eval(e.qe[0], cx);
    if (!p.defined())
    {
      cx.saw_undef_quantifier = true;
      return Val::undef();
    }
    if (total == 0)
      return Val::undef();
    return Val::b((double) found / (double) total * 100.0 >= (double) p.i);
  }
  }
}

static Val eval(const Expr& e, EvalCtx& cx)
{
  const bytes& B = *cx.buf;
  switch (e.k)
  {
  case Expr::INT_LIT:
    return Val::in(e.ival);
  case Expr::FLT_LIT:
    return Val::fl(e.fval);
  case Expr::STR_LIT:
    return Val::st(e.sval);
  case Expr::BOOL_LIT:
    return Val::b(e.ival != 0);
  case Expr::FILESIZE:
    return Val::in((int64_t) B.size());
  case Expr::COUNT:
    return Val::in((int64_t) mlist(e, cx).size());
  case Expr::COUNT_IN:
  {
    Val a = eval(e.ch[0], cx), b = eval(e.ch[1], cx);
    if (!a.defined() || !b.defined())
      return Val::undef();
    int64_t n = 0;
    for (auto& m : mlist(e, cx))
      if (m.off >= a.i && m.off <= b.i)
        n++;
    return Val::in(n);
  }
  case Expr::OFFSET:
  case Expr::LENGTH:
  {
    int64_t idx = 1;
    if (!e.ch.empty())
    {
      Val i = eval(e.ch[0], cx);
      if (!i.defined())
        return Val::undef();
      idx = i.i;
    }
    const auto& ml = mlist(e, cx);
    if (idx < 1 || idx > (int64_t) ml.size())
      return Val::undef();
    return Val::in(e.k == Expr::OFFSET ? ml[idx - 1].off : ml[idx - 1].len);
  }
  case Expr::READ:
  {
    Val o = eval(e.ch[0], cx);
    if (!o.defined())
      return Val::undef();
    int base = e.rd % 6;
    bool be = e.rd >= 6;
    int size = (base % 3 == 0) ? 1 : (base % 3 == 1) ? 2 : 4;
    bool sign = base < 3;
    if (o.i < 0 || (uint64_t) o.i + size > B.size())
      return Val::undef();
    uint64_t v = 0;
    for (int k = 0; k < size; k++)
    {
      unsigned char c = (unsigned char) B[o.i + k];
      if (be)
        v = (v << 8) | c;
      else
        v |= (uint64_t) c << (8 * k);
    }
    if (sign)
    {
      if (size == 1)
        return Val::in((int8_t) v);
      if (size == 2)
        return Val::in((int16_t) v);
      return Val::in((int32_t) v);
    }
    return Val::in((int64_t) v);
  }
  case Expr::NEG:
  {
    Val a = eval(e.ch[0], cx);
    if (!a.defined())
      return a;
    if (a.t == Val::FLT)
      return Val::fl(-a.f);
    return Val::in((int64_t) (0 - (uint64_t) a.i));
  }
  case Expr::BITNOT:
  {
    Val a = eval(e.ch[0], cx);
    if (!a.defined())
      return a;
    return Val::in(~a.i);
  }
  case Expr::ARITH:
  {
    Val a = eval(e.ch[0], cx), b = eval(e.ch[1], cx);
    if (!a.defined() || !b.defined())
      return Val::undef();
    const std::string& op = e.name;
    if (a.t == Val::FLT || b.t == Val::FLT)
    {
      double x = a.t == Val::FLT ? a.f : (double) a.i, y = b.t == Val::FLT ? b.f : (double) b.i;
      if (op == "+")
        return Val::fl(x + y);
      if (op == "-")
        return Val::fl(x - y);
      if (op == "*")
        return Val::fl(x * y);
      return Val::fl(x / y);
    }
    uint64_t x = (uint64_t) a.i, y = (uint64_t) b.i;
    if (op == "+")
      return Val::in((int64_t) (x + y));
    if (op == "-")
      return Val::in((int64_t) (x - y));
    if (op == "*")
      return Val::in((int64_t) (x * y));
    if (op == "\\" || op == "%")
    {
      if (b.i == 0)
        return Val::undef();
      if (a.i == INT64_MIN && b.i == -1)
        return Val::undef();
      return Val::in(op == "\\" ? a.i / b.i : a.i % b.i);
    }
    if (op == "&")
      return Val::in(a.i & b.i);
    if (op == "|")
      return Val::in(a.i | b.i);
    if (op == "^")
      return Val::in(a.i ^ b.i);
    // shifts. ASSUMPTION (exec.c): negative amount undefined, >= 64 gives 0,
    // right shift is arithmetic
    if (b.i < 0)
      return Val::undef();
    if (b.i >= 64)
      return Val::in(0);
    if (op == "<<")
      return Val::in((int64_t) (x << b.i));
    return Val::in(a.i >> b.i);
  }
  case Expr::EXT:
  {
    auto it = cx.ext.find(e.name);
    return it == cx.ext.end() ? Val::undef() : it->second;
  }
  case Expr::LOOPVAR:
  {
    auto it = cx.loopvars.find(e.name);
    return it == cx.loopvars.end() ? Val::undef() : it->second;
  }
  case Expr::RULE_REF:
    return Val::b(cx.rules[e.name]);
  case Expr::FOUND:
    return Val::b(!mlist(e, cx).empty());
  case Expr::FOUND_AT:
  {
    Val a = eval(e.ch[0], cx);
    if (!a.defined())
      return Val::undef();
    for (auto& m : mlist(e, cx))
      if (m.off == a.i)
        return Val::b(true);
    return Val::b(false);
  }
  case Expr::FOUND_IN:
  {
    Val a = eval(e.ch[0], cx), b = eval(e.ch[1], cx);
    if (!a.defined() || !b.defined())
      return Val::undef();
    for (auto& m : mlist(e, cx))
      if (m.off >= a.i && m.off <= b.i)
        return Val::b(true);
    return Val::b(false);
  }
  case Expr::CMP:
  {
    Val a = eval(e.ch[0], cx), b = eval(e.ch[1], cx);
    if (!a.defined() || !b.defined())
      return Val::undef();
    const std::string& op = e.name;
    int c;
    bool eq;
    if (a.t == Val::STR)
    {
      size_t n = std::min(a.s.size(), b.s.size());
      c = memcmp(a.s.data(), b.s.data(), n);
      if (c == 0)
        c = a.s.size() < b.s.size() ? -1 : a.s.size() > b.s.size() ? 1 : 0;
      eq = c == 0;
    }
    else if (a.t == Val::FLT || b.t == Val::FLT)
    {
      double x = a.t == Val::FLT ? a.f : (double) a.i, y = b.t == Val::FLT ? b.f : (double) b.i;
      c = x < y ? -1 : x > y ? 1 : 0;
      eq = std::fabs(x - y) < 2.220446049250313e-16;  // ASSUMPTION: engine's DBL_EPSILON tolerance
    }
    else
    {
      c = a.i < b.i ? -1 : a.i > b.i ? 1 : 0;
      eq = c == 0;
    }
    if (op == "==")
      return Val::b(eq);
    if (op == "!=")
      return Val::b(!eq);
    if (op == "<")
      return Val::b(c < 0);
    if (op == "<=")
      return Val::b(c <= 0);
    if (op == ">")
      return Val::b(c > 0);
    return Val::b(c >= 0);
  }
  case Expr::STROP:
  {
    Val a = eval(e.ch[0], cx), b = eval(e.ch[1], cx);
    if (!a.defined() || !b.defined())
      return Val::undef();
    bytes h = a.s, n = b.s;
    std::string op = e.name;
    if (op[0] == 'i')
    {
      for (auto& c : h) c = (char) fold((unsigned char) c);
      for (auto& c : n) c = (char) fold((unsigned char) c);
      op = op.substr(1);
    }
    if (op == "contains")
      return Val::b(h.find(n) != bytes::npos);
    if (op == "startswith")
      return Val::b(h.size() >= n.size() && h.compare(0, n.size(), n) == 0);
    if (op == "endswith")
      return Val::b(h.size() >= n.size() && h.compare(h.size() - n.size(), n.size(), n) == 0);
    return Val::b(h == n);  // iequals
  }
  case Expr::NOT:
  {
    Val a = eval(e.ch[0], cx);
    if (!a.defined())
      return a;
    return Val::b(!truthy(a));
  }
  case Expr::DEFINED:
    return Val::b(eval(e.ch[0], cx).defined());
  case Expr::AND:
  {
    Val a = eval(e.ch[0], cx), b = eval(e.ch[1], cx);
    return Val::b(truthy(a) && truthy(b));
  }
  case Expr::OR:
  {
    Val a = eval(e.ch[0], cx), b = eval(e.ch[1], cx);
    return Val::b(truthy(a) || truthy(b));
  }
  case Expr::OF:
  {
    int64_t found = 0;
    Val a, b;
    if (e.of_form == 1)
    {
      a = eval(e.ch[0], cx);
      b = eval(e.ch[1], cx);
      if (!a.defined() || !b.defined())
        return Val::undef();
    }
    else if (e.of_form == 2)
    {
      a = eval(e.ch[0], cx);
      if (!a.defined())
        return Val::undef();
    }
    for (int si : e.set)
    {
      bool hit = false;
      for (auto& m : cx.matches[si])
      {
        if (e.of_form == 0)
          hit = true;
        else if (e.of_form == 1)
          hit = m.off >= a.i && m.off <= b.i;
        else
          hit = m.off == a.i;
        if (hit)
          break;
      }
      found += hit;
    }
    return quant_result(e, cx, found, (int64_t) e.set.size(), false);
  }
  case Expr::OF_RULES:
  {
    // writingrules.rst "rule sets": the quantifier applies to the truth values of the listed rules
    // (a wildcard stands for the rules of the current namespace defined so far whose name has the prefix)
    int64_t found = 0;
    for (auto& n : e.rnames) found += cx.rules[n] ? 1 : 0;
    return quant_result(e, cx, found, (int64_t) e.rnames.size(), false);
  }
  case Expr::FOR_OF:
  {
    int64_t found = 0;
    int saved = cx.cur;
    for (int si : e.set)
    {
      cx.cur = si;
      found += truthy(eval(e.ch[0], cx));
    }
    cx.cur = saved;
    return quant_result(e, cx, found, (int64_t) e.set.size(), true);
  }
  case Expr::FOR_RANGE:
  {
    Val a = eval(e.ch[1], cx), b = eval(e.ch[2], cx);
    if (!a.defined() || !b.defined())
    {
      cx.saw_undef_loop_bound = true;
      return Val::undef();
    }
    int64_t found = 0, total = 0;
    for (int64_t v = a.i; v <= b.i; v++)
    {
      cx.loopvars[e.name] = Val::in(v);
      found += truthy(eval(e.ch[0], cx));
      total++;
      if (total > 100000)
        break;
    }
    cx.loopvars.erase(e.name);
    return quant_result(e, cx, found, total, true);
  }
  case Expr::FOR_ENUM:
  {
    int64_t found = 0, total = 0;
    for (size_t i = 1; i < e.ch.size(); i++)
    {
      cx.loopvars[e.name] = eval(e.ch[i], cx);
      found += truthy(eval(e.ch[0], cx));
      total++;
    }
    cx.loopvars.erase(e.name);
    return quant_result(e, cx, found, total, true);
  }
  }
  return Val::undef();
}

// --------------------------------------------------------------- generator
struct GenCtx
{
  std::vector<std::string> str_ids;   // "$_s1" ...
  std::vector<std::string> rule_ids;  // earlier rules
  // rule sets that may be used here: printed form -> member rules (earlier rules of the namespace)
  std::vector<std::pair<std::string, std::vector<std::string>>> rule_sets;
  std::vector<std::pair<std::string, Ty>> loopvars;
  int loops = 0;        // current loop nesting
  bool in_for_of = false;
  int budget = 20;
  bool allow_undef = true;
  // statistics for the non-triviality rule
  int n_ops = 0, n_loops = 0, n_undef = 0;
  std::set<int> levels;
};

static Expr gen_int(Src& s, GenCtx& g, int depth);
static Expr gen_bool(Src& s, GenCtx& g, int depth);

static Expr mk_int(int64_t v, int form = 0)
{
  Expr e;
  e.k = Expr::INT_LIT;
  e.ty = TI;
  e.ival = v;
  e.lit_form = form;
  return e;
}

static Expr gen_int_lit(Src& s)
{
  static const int64_t pool[] = {0, 1, 2, 3, 4, 5, 7, 8, 10, 16, 100, 255, 256, 1000, 4096, 65535, 0x7fffffff};
  int form = (int) s.weighted({70, 15, 5, 5, 5});
  if (form == 3)
    return mk_int((int64_t) s.range(0, 8) * 1024, 3);
  if (form == 4)
    return mk_int((int64_t) s.range(0, 3) * 1048576, 4);
  return mk_int(pool[s.range(0, 16)], form);
}

static int pick_str(Src& s, GenCtx& g)
{
  // -1 = anonymous `$` (only inside for..of)
  if (g.in_for_of && s.coin(50))
    return -1;
  return (int) s.range(0, g.str_ids.size() - 1);
}

static Expr gen_undef_int(Src& s, GenCtx& g)
{
  g.n_undef++;
  Expr e;
  e.ty = TI;
  int si = g.str_ids.empty() ? -2 : (int) s.range(0, g.str_ids.size() - 1);
  switch (si == -2 ? 0 : s.weighted({40, 30, 30}))
  {
  case 0:
  {  // uint8(filesize)
    e.k = Expr::READ;
    e.rd = (int) s.range(0, 11);
    Expr fs;
    fs.k = Expr::FILESIZE;
    fs.ty = TI;
    e.ch.push_back(fs);
    return e;
  }
  case 1:
  {  // @s[#s + 1]
    e.k = Expr::OFFSET;
    e.sidx = si;
    Expr add;
    add.k = Expr::ARITH;
    add.ty = TI;
    add.name = "+";
    Expr cnt;
    cnt.k = Expr::COUNT;
    cnt.ty = TI;
    cnt.sidx = si;
    add.ch = {cnt, mk_int(1)};
    e.ch.push_back(add);
    return e;
  }
  default:
  {  // 1 \ (#s - #s)
    e.k = Expr::ARITH;
    e.name = "\\";
    Expr sub;
    sub.k = Expr::ARITH;
    sub.ty = TI;
    sub.name = "-";
    Expr cnt;
    cnt.k = Expr::COUNT;
    cnt.ty = TI;
    cnt.sidx = si;
    sub.ch = {cnt, cnt};
    e.ch = {mk_int((int64_t) s.range(1, 9)), sub};
    return e;
  }
  }
}

static Expr gen_int(Src& s, GenCtx& g, int depth)
{
  g.budget--;
  bool leaf = depth <= 0 || g.budget <= 0;
  bool has_str = !g.str_ids.empty();
  int nlv = 0;
  for (auto& lv : g.loopvars) nlv += lv.second == TI;
  int k = (int) s.weighted({25, 8, has_str ? 14 : 0, has_str ? 10 : 0, has_str ? 5 : 0, leaf ? 0 : 8,
                            leaf ? 0 : 22, leaf ? 0 : 6, 4, nlv ? 14 : 0, g.allow_undef ? 5 : 0, has_str && !leaf ? 4 : 0});
  Expr e;
  e.ty = TI;
  switch (k)
  {
  case 0:
    return gen_int_lit(s);
  case 1:
    e.k = Expr::FILESIZE;
    return e;
  case 2:
    e.k = Expr::COUNT;
    e.sidx = pick_str(s, g);
    return e;
  case 3:
    e.k = Expr::OFFSET;
    e.sidx = pick_str(s, g);
    if (s.coin(60))
      e.ch.push_back(leaf ? mk_int((int64_t) s.range(0, 4)) : gen_int(s, g, depth - 1));
    return e;
  case 4:
    e.k = Expr::LENGTH;
    e.sidx = pick_str(s, g);
    if (s.coin(60))
      e.ch.push_back(leaf ? mk_int((int64_t) s.range(0, 4)) : gen_int(s, g, depth - 1));
    return e;
  case 5:
    e.k = Expr::READ;
    e.rd = (int) s.range(0, 11);
    e.ch.push_back(gen_int(s, g, depth - 1));
    g.n_ops++;
    return e;
  case 6:
  {
    static const char* ops[] = {"+", "-", "*", "\\", "%", "&", "|", "^", "<<", ">>"};
    e.k = Expr::ARITH;
    e.name = ops[s.range(0, 9)];
    e.ch.push_back(gen_int(s, g, depth - 1));
    if (e.name == "\\" || e.name == "%")
    {
      // a literal zero divisor is a compile-time error (C15 material): keep literal
      // divisors non-zero, run-time divisors may be anything
      Expr d = gen_int(s, g, depth - 1);
      if (d.k == Expr::INT_LIT && d.ival == 0)
        d.ival = 3;
      e.ch.push_back(d);
    }
    else if (e.name == "<<" || e.name == ">>")
      e.ch.push_back(s.coin(70) ? mk_int((int64_t) s.range(0, 70)) : gen_int(s, g, depth - 1));
    else
      e.ch.push_back(gen_int(s, g, depth - 1));
    g.n_ops++;
    g.levels.insert(expr_level(e));
    return e;
  }
  case 7:
    e.k = s.coin(50) ? Expr::NEG : Expr::BITNOT;
    e.ch.push_back(gen_int(s, g, depth - 1));
    g.n_ops++;
    g.levels.insert(2);
    return e;
  case 8:
    e.k = Expr::EXT;
    e.name = "xi";
    return e;
  case 9:
  {
    std::vector<std::string> names;
    for (auto& lv : g.loopvars)
      if (lv.second == TI)
        names.push_back(lv.first);
    e.k = Expr::LOOPVAR;
    e.name = names[s.range(0, names.size() - 1)];
    return e;
  }
  case 10:
    return gen_undef_int(s, g);
  default:
  {
    e.k = Expr::COUNT_IN;
    e.sidx = pick_str(s, g);
    e.ch.push_back(gen_int(s, g, depth - 1));
    e.ch.push_back(gen_int(s, g, depth - 1));
    g.n_ops++;
    return e;
  }
  }
}

static Expr gen_flt(Src& s, GenCtx& g, int depth)
{
  g.budget--;
  Expr e;
  e.ty = TF;
  bool leaf = depth <= 0 || g.budget <= 0;
  switch (s.weighted({50, 15, leaf ? 0 : 35}))
  {
  case 0:
    e.k = Expr::FLT_LIT;
    e.fval = (double) s.range(0, 40) / 4.0;
    return e;
  case 1:
    e.k = Expr::EXT;
    e.name = "xf";
    return e;
  default:
  {
    static const char* ops[] = {"+", "-", "*", "\\"};
    e.k = Expr::ARITH;
    e.name = ops[s.range(0, 3)];
    Expr a = s.coin(50) ? gen_flt(s, g, depth - 1) : gen_int(s, g, depth - 1);
    Expr b;
    if (e.name == "\\")
    {
      b.k = Expr::FLT_LIT;
      b.ty = TF;
      b.fval = (double) s.range(1, 16) / 4.0;
    }
    else
      b = gen_flt(s, g, depth - 1);
    e.ch = {a, b};
    g.n_ops++;
    g.levels.insert(expr_level(e));
    return e;
  }
  }
}

static const char* STR_POOL[] = {"", "a", "A", "abc", "ABC", "abcabc", "xabcx", "bc", "ab", "zzz", "a\x01""b"};

static Expr gen_str(Src& s, GenCtx& g)
{
  Expr e;
  e.ty = TS;
  int nlv = 0;
  for (auto& lv : g.loopvars) nlv += lv.second == TS;
  switch (s.weighted({70, 15, nlv ? 30 : 0}))
  {
  case 0:
    e.k = Expr::STR_LIT;
    e.sval = STR_POOL[s.range(0, 10)];
    return e;
  case 1:
    e.k = Expr::EXT;
    e.name = "xs";
    return e;
  default:
  {
    std::vector<std::string> names;
    for (auto& lv : g.loopvars)
      if (lv.second == TS)
        names.push_back(lv.first);
    e.k = Expr::LOOPVAR;
    e.name = names[s.range(0, names.size() - 1)];
    return e;
  }
  }
}

static void gen_quant(Src& s, GenCtx& g, Expr& e, int depth, size_t setsize, bool allow_pct)
{
  e.q = (int) s.weighted({22, 28, 15, 28, allow_pct ? 7 : 0});
  if (e.q == 3)
  {
    if (s.coin(65))
      e.qe.push_back(mk_int((int64_t) s.range(1, setsize ? setsize : 3)));
    else
    {
      // run-time quantifier (may evaluate to 0 or be undefined)
      bool au = g.allow_undef;
      e.qe.push_back(gen_int(s, g, std::min(depth - 1, 1)));
      g.allow_undef = au;
      // a constant expression that folds to a negative / too large value is a
      // compile-time error; keep pure-literal quantifiers in range
      if (e.qe[0].k == Expr::INT_LIT)
        e.qe[0] = mk_int((int64_t) s.range(1, setsize ? setsize : 3));
    }
  }
  else if (e.q == 4)
    e.qe.push_back(mk_int((int64_t) s.range(1, 100)));
}

static void gen_set(Src& s, GenCtx& g, Expr& e)
{
  size_t n = g.str_ids.size();
  int form = (int) s.weighted({40, 15, 20, 25});
  if (form == 0 || n == 1)
  {
    e.set_text = form == 1 ? "($*)" : "them";
    for (size_t i = 0; i < n; i++) e.set.push_back((int) i);
  }
  else if (form == 1)
  {
    e.set_text = "($*)";
    for (size_t i = 0; i < n; i++) e.set.push_back((int) i);
  }
  else if (form == 2)
  {
    // wildcard on the identifier family: $_s* or $_t*
    char fam = s.coin(50) ? 's' : 't';
    for (size_t i = 0; i < n; i++)
      if (g.str_ids[i][2] == fam)
        e.set.push_back((int) i);
    if (e.set.empty())
    {
      fam = g.str_ids[0][2];
      for (size_t i = 0; i < n; i++)
        if (g.str_ids[i][2] == fam)
          e.set.push_back((int) i);
    }
    e.set_text = std::string("($_") + fam + "*)";
  }
  else
  {
    size_t cnt = s.range(1, n);
    size_t start = s.range(0, n - 1);
    e.set_text = "(";
    for (size_t i = 0; i < cnt; i++)
    {
      int idx = (int) ((start + i) % n);
      e.set.push_back(idx);
      e.set_text += (i ? ", " : "") + g.str_ids[idx];
    }
    e.set_text += ")";
  }
}

static Expr gen_bool(Src& s, GenCtx& g, int depth)
{
  g.budget--;
  bool leaf = depth <= 0 || g.budget <= 0;
  bool has_str = !g.str_ids.empty();
  bool can_loop = !leaf && g.loops < 4;
  int k = (int) s.weighted({4, has_str ? 14 : 0, has_str ? 8 : 0, has_str ? 6 : 0, 16, 8, leaf ? 0 : 9, leaf ? 0 : 4,
                            leaf ? 0 : 12, leaf ? 0 : 12, has_str ? 10 : 0, can_loop && has_str && !g.in_for_of ? 8 : 0,
                            can_loop ? 8 : 0, can_loop ? 6 : 0, g.rule_ids.empty() ? 0 : 5, 3, 5,
                            g.rule_sets.empty() ? 0 : 6});
  Expr e;
  e.ty = TB;
  switch (k)
  {
  case 0:
    e.k = Expr::BOOL_LIT;
    e.ival = s.coin(50);
    return e;
  case 1:
    e.k = Expr::FOUND;
    e.sidx = pick_str(s, g);
    return e;
  case 2:
    e.k = Expr::FOUND_AT;
    e.sidx = pick_str(s, g);
    e.ch.push_back(gen_int(s, g, depth - 1));
    g.n_ops++;
    return e;
  case 3:
    e.k = Expr::FOUND_IN;
    e.sidx = pick_str(s, g);
    e.ch.push_back(gen_int(s, g, depth - 1));
    e.ch.push_back(gen_int(s, g, depth - 1));
    g.n_ops++;
    return e;
  case 4:
  {  // numeric comparison
    static const char* ops[] = {"<", "<=", ">", ">=", "==", "!="};
    e.k = Expr::CMP;
    e.name = ops[s.range(0, 5)];
    int mix = (int) s.weighted({70, 15, 15});
    e.ch.push_back(mix == 2 ? gen_flt(s, g, depth - 1) : gen_int(s, g, depth - 1));
    e.ch.push_back(mix >= 1 ? gen_flt(s, g, depth - 1) : gen_int(s, g, depth - 1));
    g.n_ops++;
    g.levels.insert(expr_level(e));
    return e;
  }
  case 5:
  {  // string operators
    static const char* ops[] = {"==", "!=", "<", ">", "<=", ">=", "contains", "icontains", "startswith",
                                "istartswith", "endswith", "iendswith", "iequals"};
    size_t o = s.range(0, 12);
    e.k = o < 6 ? Expr::CMP : Expr::STROP;
    e.name = ops[o];
    e.ch.push_back(gen_str(s, g));
    e.ch.push_back(gen_str(s, g));
    g.n_ops++;
    g.levels.insert(expr_level(e));
    return e;
  }
  case 6:
    e.k = Expr::NOT;
    e.ch.push_back(gen_bool(s, g, depth - 1));
    g.n_ops++;
    g.levels.insert(11);
    return e;
  case 7:
    e.k = Expr::DEFINED;
    e.ch.push_back(s.coin(50) ? gen_int(s, g, depth - 1) : gen_bool(s, g, depth - 1));
    g.n_ops++;
    g.levels.insert(11);
    return e;
  case 8:
  case 9:
    e.k = k == 8 ? Expr::AND : Expr::OR;
    e.ch.push_back(gen_bool(s, g, depth - 1));
    e.ch.push_back(gen_bool(s, g, depth - 1));
    g.n_ops++;
    g.levels.insert(k == 8 ? 12 : 13);
    return e;
  case 10:
  {  // of
    e.k = Expr::OF;
    gen_set(s, g, e);
    e.of_form = (int) s.weighted({60, 22, 18});
    gen_quant(s, g, e, depth, e.set.size(), e.of_form == 0);
    if (e.of_form == 1)
    {
      e.ch.push_back(leaf ? gen_int_lit(s) : gen_int(s, g, depth - 1));
      e.ch.push_back(leaf ? gen_int_lit(s) : gen_int(s, g, depth - 1));
      // a constant inverted range is a compile-time error
      if (e.ch[0].k == Expr::INT_LIT && e.ch[1].k == Expr::INT_LIT && e.ch[0].ival > e.ch[1].ival)
        std::swap(e.ch[0], e.ch[1]);
    }
    else if (e.of_form == 2)
      e.ch.push_back(leaf ? gen_int_lit(s) : gen_int(s, g, depth - 1));
    g.n_ops++;
    return e;
  }
  case 11:
  {  // for .. of
    e.k = Expr::FOR_OF;
    gen_set(s, g, e);
    gen_quant(s, g, e, depth, e.set.size(), false);
    g.loops++;
    bool saved = g.in_for_of;
    g.in_for_of = true;
    e.ch.push_back(gen_bool(s, g, depth - 1));
    g.in_for_of = saved;
    g.loops--;
    g.n_loops++;
    return e;
  }
  case 12:
  {  // for .. in range
    e.k = Expr::FOR_RANGE;
    static const char* vn[] = {"i", "j", "k", "l"};
    e.name = vn[g.loops];
    gen_quant(s, g, e, depth, 3, false);
    // bounds kept small by construction: literals 0..6, #s, or an undefined value
    auto bound = [&](bool hi) -> Expr {
      int w = (int) s.weighted({60, has_str ? 30 : 0, g.allow_undef ? 10 : 0});
      if (w == 0)
        return mk_int((int64_t) s.range(hi ? 0 : 0, hi ? 6 : 3));
      if (w == 1)
      {
        Expr c;
        c.k = Expr::COUNT;
        c.ty = TI;
        c.sidx = (int) s.range(0, g.str_ids.size() - 1);
        return c;
      }
      return gen_undef_int(s, g);
    };
    Expr lo = bound(false), hi = bound(true);
    if (lo.k == Expr::INT_LIT && hi.k == Expr::INT_LIT && lo.ival > hi.ival)
      std::swap(lo, hi);
    g.loops++;
    g.loopvars.push_back({e.name, TI});
    Expr body = gen_bool(s, g, depth - 1);
    g.loopvars.pop_back();
    g.loops--;
    e.ch = {body, lo, hi};
    g.n_loops++;
    return e;
  }
  case 13:
  {  // for .. in enumeration (integers or text strings)
    e.k = Expr::FOR_ENUM;
    static const char* vn[] = {"i", "j", "k", "l"};
    e.name = vn[g.loops];
    bool strs = s.coin(30);
    size_t n = s.range(1, 4);
    gen_quant(s, g, e, depth, n, false);
    std::vector<Expr> items;
    for (size_t i = 0; i < n; i++)
    {
      if (strs)
      {
        Expr it;
        it.k = Expr::STR_LIT;
        it.ty = TS;
        it.sval = STR_POOL[s.range(0, 10)];
        items.push_back(it);
      }
      else
        items.push_back(s.coin(70) ? gen_int_lit(s) : gen_int(s, g, 1));
    }
    g.loops++;
    g.loopvars.push_back({e.name, strs ? TS : TI});
    Expr body = gen_bool(s, g, depth - 1);
    g.loopvars.pop_back();
    g.loops--;
    e.ch.push_back(body);
    for (auto& it : items) e.ch.push_back(it);
    g.n_loops++;
    return e;
  }
  case 14:
    e.k = Expr::RULE_REF;
    e.name = g.rule_ids[s.range(0, g.rule_ids.size() - 1)];
    return e;
  case 15:
    e.k = Expr::EXT;
    e.name = "xb";
    return e;
  case 17:
  {
    auto& rs = g.rule_sets[s.range(0, g.rule_sets.size() - 1)];
    e.k = Expr::OF_RULES;
    e.set_text = rs.first;
    e.rnames = rs.second;
    e.q = (int) s.weighted({30, 35, 15, 20});
    if (e.q == 3)
      e.qe.push_back(mk_int((int64_t) s.range(1, e.rnames.size())));
    g.n_ops++;
    return e;
  }
  default:
  {  // comparison with an undefined operand / boolean-level undefined
    static const char* ops[] = {"<", "<=", ">", ">=", "==", "!="};
    e.k = Expr::CMP;
    e.name = ops[s.range(0, 5)];
    Expr u = g.allow_undef && has_str ? gen_undef_int(s, g) : gen_int(s, g, 0);
    Expr o = s.coin(30) ? gen_flt(s, g, 0) : gen_int(s, g, 0);
    if (s.coin(50))
      e.ch = {u, o};
    else
      e.ch = {o, u};
    g.n_ops++;
    return e;
  }
  }
}

// integer literals used where a string offset is expected (`at`, range bounds,
// `#a in`, `of ... at/in`): buffers place string instances exactly there
static void collect_offset_targets(const Expr& e, std::vector<int64_t>& out, bool ctx = false)
{
  if (e.k == Expr::INT_LIT && ctx && e.ival >= 0 && e.ival < 1500)
    out.push_back(e.ival);
  bool sc = e.k == Expr::FOUND_AT || e.k == Expr::FOUND_IN || e.k == Expr::COUNT_IN || (e.k == Expr::OF && e.of_form != 0);
  for (auto& c : e.ch) collect_offset_targets(c, out, sc || (ctx && e.k == Expr::ARITH));
  for (auto& c : e.qe) collect_offset_targets(c, out, false);
}

// overwrite `B` so that `inst` sits exactly at offset `t`
static void place_at(bytes& B, size_t t, const bytes& inst)
{
  if (B.size() < t + inst.size())
    B.resize(t + inst.size(), 'x');
  B.replace(t, inst.size(), inst);
}
