// C20 - external variables are typed, scoped and isolated (three-level model).
#include "condmodel.hpp"

const char* PROP_ID = "C20";
void prop_init() { ys_set_arena_initial_size(65536); }


static const int64_t INTS[] = {-1, 0, 1, 2, 7, 1LL << 40};
static const double FLTS[] = {0.0, 1.5, -2.25, 1e10};
static std::vector<bytes> strs_domain()
{
  return {"", "a", "A", bytes(300, 'z'), bytes("h\xffgh"), "abc"};
}

struct EVal
{
  int type = 0;
  int64_t i = 0;
  double f = 0;
  bytes s;
  std::string show() const
  {
    if (type == YS_EXT_INT)
      return strf("int %lld", (long long) i);
    if (type == YS_EXT_BOOL)
      return strf("bool %lld", (long long) i);
    if (type == YS_EXT_FLOAT)
      return strf("float %g", f);
    return "string \"" + esc(s.substr(0, 20)) + "\"";
  }
};
typedef std::map<std::string, EVal> Env;

static EVal gen_val(Src& s, int type)
{
  EVal v;
  v.type = type;
  if (type == YS_EXT_INT)
    v.i = INTS[s.range(0, 5)];
  else if (type == YS_EXT_BOOL)
    v.i = (int64_t) s.range(0, 1);
  else if (type == YS_EXT_FLOAT)
    v.f = FLTS[s.range(0, 3)];
  else
    v.s = strs_domain()[s.range(0, 5)];
  return v;
}

// exposing rules: name, condition text, expected truth as a function of the environment
struct Expose
{
  std::string name, cond;
  std::function<bool(const Env&)> expect;
  std::string strings = "$a = \"abc\" $b = \"nothere\"";  // the rule's strings section
  bool bare = false;  // true: the condition is used as it is (no `or (#a + #b < 0)` appended)
};

static std::vector<Expose> exposures()
{
  std::vector<Expose> v;
  for (int64_t k : INTS)
  {
    std::string ks = strf("%lld", (long long) k);
    std::string nm = k < 0 ? "m1" : k > 100 ? "big" : ks;
    v.push_back({"vi_eq_" + nm, "vi == " + ks, [k](const Env& e) { return e.at("vi").i == k; }});
  }
  v.push_back({"vi_arith", "vi + 1 > 2 and vi * 2 < 100", [](const Env& e) { return e.at("vi").i + 1 > 2 && e.at("vi").i * 2 < 100; }});
  // buffer: "..abc..abc" -> $a at 2 and 7; $b absent
  v.push_back({"vi_at", "$a at vi", [](const Env& e) { return e.at("vi").i == 2 || e.at("vi").i == 7; }});
  v.push_back({"vi_in", "$a in (vi..vi + 1)", [](const Env& e) {
                 int64_t x = e.at("vi").i;
                 return (2 >= x && 2 <= x + 1) || (7 >= x && 7 <= x + 1);
               }});
  v.push_back({"vi_count_in", "#a in (0..vi) == 2", [](const Env& e) { return e.at("vi").i >= 7; }});
  v.push_back({"vi_idx", "@a[vi] == 7", [](const Env& e) { return e.at("vi").i == 2; }});
  v.push_back({"vi_of", "vi of ($a, $b)", [](const Env& e) {
                 int64_t n = e.at("vi").i;
                 return n == 0 ? false : 1 >= n;  // one of the two strings is present
               }});
  {
    // none of the rule's strings occurs in the buffer and nothing else in the condition can make it true:
    // `0 of them` is true exactly then, and a variable holding 0 must behave like the literal
    Expose x{"vi_of_absent", "vi >= 0 and vi of them", [](const Env& e) { return e.at("vi").i == 0; }};
    x.strings = "$b = \"nothere\" $c = \"neither\"";
    x.bare = true;
    v.push_back(x);
    Expose y{"vi_of_absent_in", "vi >= 0 and vi of them in (0..vi + 5)", [](const Env& e) { return e.at("vi").i == 0; }};
    y.strings = x.strings;
    y.bare = true;
    v.push_back(y);
  }
  v.push_back({"vi_read", "uint8(vi) == 0x61", [](const Env& e) { return e.at("vi").i == 2 || e.at("vi").i == 7; }});
  v.push_back({"vi_loop", "for any i in (vi..vi + 2) : (i == 3)", [](const Env& e) {
                 int64_t x = e.at("vi").i;
                 return x <= 3 && 3 <= x + 2;
               }});
  v.push_back({"vb_true", "vb", [](const Env& e) { return e.at("vb").i != 0; }});
  v.push_back({"vb_not", "not vb", [](const Env& e) { return e.at("vb").i == 0; }});
  int fi = 0;
  for (double k : FLTS)
    v.push_back({strf("vf_eq_%d", fi++), strf("vf == %.2f", k),
                 [k](const Env& e) { return std::fabs(e.at("vf").f - k) < 2.220446049250313e-16; }});
  v.push_back({"vf_lt", "vf < 0.0", [](const Env& e) { return e.at("vf").f < 0.0; }});
  v.push_back({"vf_arith", "vf * 2 > 2.5", [](const Env& e) { return e.at("vf").f * 2 > 2.5; }});
  int idx = 0;
  for (auto& k : strs_domain())
  {
    bytes kk = k;
    v.push_back({strf("vs_eq_%d", idx++), "vs == " + text_literal(k), [kk](const Env& e) { return e.at("vs").s == kk; }});
  }
  v.push_back({"vs_contains", "vs contains \"a\"", [](const Env& e) { return e.at("vs").s.find('a') != bytes::npos; }});
  v.push_back({"vs_iequals", "vs iequals \"A\"", [](const Env& e) { return e.at("vs").s == "a" || e.at("vs").s == "A"; }});
  v.push_back({"vs_len", "vs startswith \"zz\"", [](const Env& e) { return e.at("vs").s.compare(0, 2, "zz") == 0; }});
  // a second string variable over the same domain: equal values share pooled storage
  idx = 0;
  for (auto& k : strs_domain())
  {
    bytes kk = k;
    v.push_back({strf("vt_eq_%d", idx++), "vt == " + text_literal(k), [kk](const Env& e) { return e.at("vt").s == kk; }});
  }
  v.push_back({"vs_vt", "vs == vt", [](const Env& e) { return e.at("vs").s == e.at("vt").s; }});
  // a string used as a boolean is true iff it is not empty - for a variable as for a literal
  v.push_back({"vs_bool", "vs", [](const Env& e) { return !e.at("vs").s.empty(); }});
  v.push_back({"vs_not", "not vs", [](const Env& e) { return e.at("vs").s.empty(); }});
  v.push_back({"vt_and", "vi > -1000000 and vt", [](const Env& e) { return !e.at("vt").s.empty(); }});
  v.push_back({"vs_or_vt", "vs or vt", [](const Env& e) { return !e.at("vs").s.empty() || !e.at("vt").s.empty(); }});
  return v;
}

static int define_at(int level, ys_compiler* c, ys_rules* r, ys_scanner* sc, const std::string& id, const EVal& v)
{
  const char* sp = v.s.c_str();
  if (level == 0)
    return ys_compiler_define(c, v.type, id.c_str(), v.i, v.f, sp);
  if (level == 1)
    return ys_rules_define(r, v.type, id.c_str(), v.i, v.f, sp);
  return ys_scanner_define(sc, v.type, id.c_str(), v.i, v.f, sp);
}

static int type_of(const std::string& id)
{
  return id == "vi" ? YS_EXT_INT : id == "vb" ? YS_EXT_BOOL : id == "vf" ? YS_EXT_FLOAT : YS_EXT_STR;
}

std::string run_case(Src& s, CaseInfo& ci)
{
  static const std::vector<Expose> ex = exposures();
  static const char* IDS[] = {"vi", "vb", "vf", "vs", "vt"};
  const bytes buffer = "..abc..abc";
  std::string log;
  auto note = [&](const std::string& l) { log += l + "\n"; };

  // compile-time definitions (every variable once, plus optional duplicates)
  Env cenv;
  int err = 0;
  ys_compiler* c = ys_compiler_new(&err);
  if (!c)
    return "compiler creation failed";
  std::string failure;
  int rejected = 0;
  for (auto id : IDS)
  {
    EVal v = gen_val(s, type_of(id));
    cenv[id] = v;
    int rc = define_at(0, c, nullptr, nullptr, id, v);
    note(strf("compiler.define %s = %s -> %d", id, v.show().c_str(), rc));
    if (rc != 0 && failure.empty())
      failure = strf("compiler-level definition of %s returned %d", id, rc);
    if (s.coin(15))
    {
      EVal d = gen_val(s, type_of(id));
      int rc2 = define_at(0, c, nullptr, nullptr, id, d);
      note(strf("compiler.define %s = %s (duplicate) -> %d", id, d.show().c_str(), rc2));
      rejected++;
      if (rc2 != 56 && failure.empty())
        failure = strf("duplicate compiler-level definition of %s returned %d, expected ERROR_DUPLICATED_EXTERNAL_VARIABLE", id, rc2);
    }
  }
  std::string src;
  for (auto& e : ex)
    src += "rule " + e.name + " { strings: " + e.strings + " condition: " + (e.bare ? e.cond : "(" + e.cond + ") or (#a + #b < 0)") + " }\n";
  int nerr = ys_compiler_add(c, YS_ADD_STRING, src.c_str(), src.size(), nullptr);
  ys_rules* R = nullptr;
  if (nerr || ys_compiler_get_rules(c, &R) != 0)
  {
    std::string d = ys_compiler_diag(c);
    ys_compiler_free(c);
    return "exposing rules do not compile: " + d;
  }
  ys_compiler_free(c);

  Env renv = cenv;
  struct Sc
  {
    ys_scanner* sc;
    Env env;
  };
  std::vector<Sc> scanners;
  int levels_used = 1, nscans = 0;
  std::set<int> levels;

  auto check_scan = [&](ys_scanner* sc, const Env& env, const std::string& who) -> std::string {
    ys_scan_opts o;
    memset(&o, 0, sizeof o);
    char* t = nullptr;
    ys_scan(R, sc, (const uint8_t*) buffer.data(), buffer.size(), &o, &t);
    Trace tr = parse_trace(t);
    ys_free(t);
    nscans++;
    if (tr.rc != 0)
      return who + strf(": scan returned %d", tr.rc);
    for (auto& e : ex)
    {
      const MsgRec* m = tr.rule("default:" + e.name);
      bool got = m && m->kind == 'M';
      bool want = e.expect(env);
      if (got != want)
        return who + ": rule `" + e.cond + "` is " + (got ? "true" : "false") + " but the scan should see vi=" +
               env.at("vi").show() + " vb=" + env.at("vb").show() + " vf=" + env.at("vf").show() + " vs=" +
               env.at("vs").show() + " vt=" + env.at("vt").show();
    }
    return "";
  };

  size_t nops = s.range(3, 14);
  for (size_t op = 0; op < nops && failure.empty(); op++)
  {
    checkpoint(s, log);
    int k = (int) s.weighted({20, 15, 25, 25, 10, 5});
    if (k == 0)
    {  // rules-level definition (valid / unknown id / wrong type)
      int bad = (int) s.weighted({70, 15, 15});
      std::string id = IDS[s.range(0, 4)];
      if (bad == 0)
      {
        EVal v = gen_val(s, type_of(id));
        int rc = define_at(1, nullptr, R, nullptr, id, v);
        note("rules.define " + id + " = " + v.show() + strf(" -> %d", rc));
        if (rc != 0)
          failure = "valid rules-level definition rejected: " + id + strf(" -> %d", rc);
        renv[id] = v;
        levels.insert(1);
      }
      else if (bad == 1)
      {
        EVal v = gen_val(s, YS_EXT_INT);
        int rc = define_at(1, nullptr, R, nullptr, "nosuchvar", v);
        note(strf("rules.define nosuchvar -> %d", rc));
        rejected++;
        if (rc != 29)
          failure = strf("rules-level definition of an unknown identifier returned %d, expected ERROR_INVALID_ARGUMENT", rc);
      }
      else
      {
        // incompatible type (integer<->boolean crossings are not generated: undocumented)
        int t = type_of(id);
        int wrong = (t == YS_EXT_STR) ? YS_EXT_INT : (t == YS_EXT_FLOAT ? YS_EXT_STR : (s.coin(50) ? YS_EXT_STR : YS_EXT_FLOAT));
        EVal v = gen_val(s, wrong);
        int rc = define_at(1, nullptr, R, nullptr, id, v);
        note("rules.define " + id + " = " + v.show() + strf(" (wrong type) -> %d", rc));
        rejected++;
        if (rc != 48)
          failure = "rules-level definition of " + id + " with " + v.show() +
                    strf(" returned %d, expected ERROR_INVALID_EXTERNAL_VARIABLE_TYPE", rc);
      }
    }
    else if (k == 1)
    {  // create scanner: takes the rule-set values in force now
      int e2 = 0;
      ys_scanner* sc = ys_scanner_new(R, &e2);
      if (!sc)
        failure = strf("scanner creation returned %d", e2);
      else
        scanners.push_back({sc, renv});
      note(strf("scanner[%zu] = create", scanners.size() - 1));
    }
    else if (k == 2 && !scanners.empty())
    {  // scanner-level definition
      size_t si = s.range(0, scanners.size() - 1);
      int bad = (int) s.weighted({70, 15, 15});
      std::string id = IDS[s.range(0, 4)];
      if (bad == 0)
      {
        EVal v = gen_val(s, type_of(id));
        int rc = define_at(2, nullptr, nullptr, scanners[si].sc, id, v);
        note(strf("scanner[%zu].define ", si) + id + " = " + v.show() + strf(" -> %d", rc));
        if (rc != 0)
          failure = "valid scanner-level definition rejected: " + id + strf(" -> %d", rc);
        scanners[si].env[id] = v;
        levels.insert(2);
      }
      else if (bad == 1)
      {
        EVal v = gen_val(s, YS_EXT_STR);
        int rc = define_at(2, nullptr, nullptr, scanners[si].sc, "nosuchvar", v);
        note(strf("scanner[%zu].define nosuchvar -> %d", si, rc));
        rejected++;
        if (rc != 29)
          failure = strf("scanner-level definition of an unknown identifier returned %d, expected ERROR_INVALID_ARGUMENT", rc);
      }
      else
      {
        int t = type_of(id);
        int wrong = (t == YS_EXT_STR) ? YS_EXT_FLOAT : (t == YS_EXT_FLOAT ? YS_EXT_STR : YS_EXT_STR);
        EVal v = gen_val(s, wrong);
        int rc = define_at(2, nullptr, nullptr, scanners[si].sc, id, v);
        note(strf("scanner[%zu].define ", si) + id + " = " + v.show() + strf(" (wrong type) -> %d", rc));
        rejected++;
        if (rc != 48)
          failure = "scanner-level definition of " + id + " with " + v.show() +
                    strf(" returned %d, expected ERROR_INVALID_EXTERNAL_VARIABLE_TYPE", rc);
      }
    }
    else if (k == 3 && !scanners.empty())
    {
      size_t si = s.range(0, scanners.size() - 1);
      note(strf("scan with scanner[%zu]", si));
      failure = check_scan(scanners[si].sc, scanners[si].env, strf("scanner[%zu]", si));
    }
    else if (k == 4)
    {
      note("scan with yr_rules_scan_mem");
      failure = check_scan(nullptr, renv, "rules-level scan");
    }
    else if (k == 5 && !scanners.empty())
    {
      size_t si = s.range(0, scanners.size() - 1);
      note(strf("destroy scanner[%zu]", si));
      ys_scanner_free(scanners[si].sc);
      scanners.erase(scanners.begin() + si);
    }
  }
  // final sweep: every live scanner and the rule set still see their own values
  for (size_t si = 0; si < scanners.size() && failure.empty(); si++)
    failure = check_scan(scanners[si].sc, scanners[si].env, strf("final scan, scanner[%zu]", si));
  if (failure.empty())
    failure = check_scan(nullptr, renv, "final rules-level scan");
  for (auto& sc : scanners) ys_scanner_free(sc.sc);
  size_t nsc = scanners.size();
  ys_rules_free(R);
  if (failure.empty() && leak_check_now())
    failure = "memory leaked by this sequence of definitions (LeakSanitizer)";

  ci.desc = log;
  ci.hash = hstr(log);
  levels_used += (int) levels.size();
  ci.nontrivial = levels_used >= 2 && rejected >= 1 && nscans >= 2;
  ci.sub_evals = (uint64_t) nscans;
  if (levels.count(1))
    ci.classes.push_back("rules-level-define");
  if (levels.count(2))
    ci.classes.push_back("scanner-level-define");
  if (rejected)
    ci.classes.push_back("rejected-definition");
  if (nsc >= 2)
    ci.classes.push_back(">=2-live-scanners");
  return failure;
}

std::vector<FixedCase> fixed_cases() { return {}; }
