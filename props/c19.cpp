// C19 - compiled rules do not depend on how internal storage grew.
#include "rulesetgen.hpp"

const char* PROP_ID = "C19";
void prop_init() {}

static std::string scan_text(ys_rules* r, const bytes& b)
{
  ys_scan_opts o;
  memset(&o, 0, sizeof o);
  o.with_strings = 1;
  char* t = nullptr;
  ys_scan(r, nullptr, (const uint8_t*) b.data(), b.size(), &o, &t);
  std::string s = t;
  ys_free(t);
  return s;
}

struct Compiled
{
  Rules r;
  std::string image;
  int grown = 0;
  CompileResult cr;
};

static void compile_with_capacity(const std::vector<SourceUnit>& units, const std::vector<ExtDef>& exts, size_t cap,
                                  Compiled& out)
{
  ys_set_arena_initial_size(cap);
  int err = 0;
  ys_compiler* c = ys_compiler_new(&err);
  ys_set_arena_initial_size(0);
  if (!c)
  {
    out.cr.errors = -1;
    return;
  }
  for (auto& e : exts) ys_compiler_define(c, e.type, e.id.c_str(), e.i, e.f, e.s.c_str());
  for (auto& u : units)
  {
    int n = ys_compiler_add(c, u.how, u.text.c_str(), u.text.size(), u.ns == "default" ? nullptr : u.ns.c_str());
    out.cr.errors += n;
    if (n)
      break;
  }
  out.cr.diag = ys_compiler_diag(c);
  out.cr.first_error = ys_compiler_first_error(c);
  if (out.cr.errors == 0)
    out.cr.rc = ys_compiler_get_rules(c, &out.r.r);
  char info[2048];
  out.grown = ys_compiler_arena_info(c, info, sizeof info);
  ys_compiler_free(c);
  if (out.r.r)
  {
    uint8_t* d = nullptr;
    size_t n = 0;
    if (ys_rules_save_mem(out.r.r, &d, &n) == 0)
      out.image.assign((char*) d, n);
    ys_free(d);
  }
}

std::string run_case(Src& s, CaseInfo& ci)
{
  GenOpts go;
  go.max_rules = g_tier ? 40 : 16;
  GSet gs = gen_ruleset(s, go);
  std::vector<bytes> bufs;
  size_t nbuf = s.range(1, 2);
  for (size_t i = 0; i < nbuf; i++) bufs.push_back(gen_set_buffer(s, gs));
  static const size_t CAPS[] = {1, 2, 3, 5, 8, 13, 16, 24, 32, 64, 100, 128, 256, 1000, 4096, 65536};
  std::vector<size_t> caps;
  size_t ncap = s.range(2, 5);
  for (size_t i = 0; i < ncap; i++) caps.push_back(s.coin(80) ? CAPS[s.range(0, 15)] : (size_t) s.range(1, 5000));

  std::vector<int> all;
  for (size_t i = 0; i < gs.rules.size(); i++) all.push_back((int) i);
  std::vector<SourceUnit> units = units_for(gs, all);
  std::string src;
  for (auto& u : units) src += "// namespace " + u.ns + "\n" + u.text;
  ci.desc = src;
  for (auto& b : bufs) ci.desc += "buffer[" + std::to_string(b.size()) + "] \"" + esc(b) + "\"\n";
  ci.desc += "capacities:";
  for (size_t c : caps) ci.desc += strf(" %zu", c);
  ci.desc += "\n";
  ci.hash = hstr(ci.desc);
  checkpoint(s, ci.desc);

  Compiled base;
  compile_with_capacity(units, gs.exts, 1048576, base);
  if (base.cr.errors || base.cr.rc)
  {
    if (compile_discardable(base.cr))
    {
      ci.discard = strf("constant/limit-rejected(%d)", base.cr.first_error);
      return "";
    }
    return "generated rule set rejected: " + base.cr.diag;
  }
  std::vector<std::string> tb;
  for (auto& b : bufs) tb.push_back(scan_text(base.r.r, b));
  int maxgrown = 0;
  for (size_t cap : caps)
  {
    Compiled v;
    compile_with_capacity(units, gs.exts, cap, v);
    ci.sub_evals++;
    if (v.cr.errors || v.cr.rc)
      return strf("with initial capacity %zu the rule set is rejected (%s) although it compiles with 1 MiB", cap,
                  v.cr.diag.c_str());
    maxgrown = std::max(maxgrown, v.grown);
    if (v.image != base.image)
    {
      size_t d = 0;
      while (d < v.image.size() && d < base.image.size() && v.image[d] == base.image[d]) d++;
      return strf("initial capacity %zu: saved image differs from the 1 MiB one (sizes %zu / %zu, first difference at byte %zu)",
                  cap, v.image.size(), base.image.size(), d);
    }
    for (size_t i = 0; i < bufs.size(); i++)
    {
      std::string t = scan_text(v.r.r, bufs[i]);
      if (t != tb[i])
        return strf("initial capacity %zu: buffer %zu scans differently:\n--- 1 MiB\n%s--- %zu\n%s", cap, i,
                    tb[i].substr(0, 500).c_str(), cap, t.substr(0, 500).c_str());
    }
  }
  std::set<int> kinds;
  for (auto& r : gs.rules)
    for (auto& st : r.strs) kinds.insert(st.kind);
  ci.nontrivial = maxgrown >= 3 && kinds.size() >= 2;
  ci.classes.push_back(strf("max-growths>=%d", maxgrown >= 40 ? 40 : maxgrown >= 10 ? 10 : maxgrown >= 3 ? 3 : 0));
  if (gs.rules.size() >= 8)
    ci.classes.push_back(">=8-rules");
  return "";
}

std::vector<FixedCase> fixed_cases() { return {}; }
