// Shared harness plumbing for every property translation unit.
//  * Src: the "choice source" all generators draw from; three back ends
//    (rapidcheck, libFuzzer bytes, recorded tape) so that one generator/oracle
//    serves rapidcheck runs, libFuzzer campaigns and plain replays.
//  * Stats: evaluations, distinct non-trivial hashes, class histogram, samples.
//  * main(): --worker (rapidcheck), --replay <file>, or LLVMFuzzerTestOneInput.
// A property TU defines:   static const char* PROP_ID;   and
//     std::string run_case(Src& s, CaseInfo& ci);   // "" = held, else message
#pragma once
#include <algorithm>
#include <cassert>
#include <chrono>
#include <cinttypes>
#include <cstdint>
#include <cstdio>
#include <cstdlib>
#include <cstring>
#include <fstream>
#include <functional>
#include <map>
#include <memory>
#include <set>
#include <sstream>
#include <string>
#include <unordered_set>
#include <vector>
#include <unistd.h>
#include <sys/wait.h>

#include "yshim.h"

#ifndef VERIF_LIBFUZZER
#include <rapidcheck.h>
#endif

typedef std::string bytes;  // arbitrary byte strings

// ---------------------------------------------------------------- utilities
static inline uint64_t fnv1a(const void* p, size_t n, uint64_t h = 1469598103934665603ULL)
{
  const unsigned char* c = (const unsigned char*) p;
  for (size_t i = 0; i < n; i++)
  {
    h ^= c[i];
    h *= 1099511628211ULL;
  }
  return h;
}
static inline uint64_t hstr(const std::string& s, uint64_t h = 1469598103934665603ULL)
{
  return fnv1a(s.data(), s.size(), h);
}

static inline std::string hexs(const bytes& b)
{
  static const char* d = "0123456789abcdef";
  std::string o;
  for (unsigned char c : b)
  {
    o += d[c >> 4];
    o += d[c & 15];
  }
  return o;
}

// printable rendering: \xNN for everything outside [0x20,0x7e] and for \ and "
static inline std::string esc(const bytes& b)
{
  std::string o;
  char t[8];
  for (unsigned char c : b)
  {
    if (c >= 0x20 && c < 0x7f && c != '\\' && c != '"')
      o += (char) c;
    else
    {
      snprintf(t, sizeof t, "\\x%02x", c);
      o += t;
    }
  }
  return o;
}

static inline std::string json_str(const std::string& s)
{
  std::string o = "\"";
  char t[8];
  for (unsigned char c : s)
  {
    if (c == '"' || c == '\\')
    {
      o += '\\';
      o += (char) c;
    }
    else if (c < 0x20 || c >= 0x7f)
    {
      snprintf(t, sizeof t, "\\u%04x", c);
      o += t;
    }
    else
      o += (char) c;
  }
  return o + "\"";
}

static inline std::string strf(const char* fmt, ...)
{
  char buf[1024];
  va_list ap;
  va_start(ap, fmt);
  int n = vsnprintf(buf, sizeof buf, fmt, ap);
  va_end(ap);
  if (n < (int) sizeof buf)
    return std::string(buf, n < 0 ? 0 : n);
  std::string s(n + 1, 0);
  va_start(ap, fmt);
  vsnprintf(&s[0], n + 1, fmt, ap);
  va_end(ap);
  s.resize(n);
  return s;
}

// ------------------------------------------------------------ choice source
struct Src
{
  std::vector<uint64_t> tape;
  virtual ~Src() {}
  virtual uint64_t raw(uint64_t lo, uint64_t hi) = 0;

  // every draw is an integer in [lo,hi]; lo is the "simplest" value
  uint64_t range(uint64_t lo, uint64_t hi)
  {
    if (hi <= lo)
    {
      return lo;  // no choice, nothing recorded
    }
    uint64_t v = raw(lo, hi);
    if (v < lo || v > hi)
      v = lo + (v - lo) % (hi - lo + 1);
    tape.push_back(v);
    return v;
  }
  int irange(int lo, int hi) { return (int) ((int64_t) lo + (int64_t) range(0, (uint64_t) ((int64_t) hi - lo))); }
  bool coin(int pct) { return range(0, 99) >= (uint64_t) (100 - pct); }  // 0 => false
  size_t weighted(std::initializer_list<int> w)
  {
    int tot = 0;
    for (int x : w) tot += x;
    int v = (int) range(0, tot - 1);
    size_t i = 0;
    for (int x : w)
    {
      if (v < x)
        return i;
      v -= x;
      i++;
    }
    return w.size() - 1;
  }
  template <class T>
  const T& pick(const std::vector<T>& v)
  {
    return v[range(0, v.size() - 1)];
  }
  uint8_t byte() { return (uint8_t) range(0, 255); }
  // all remaining raw input as bytes (libFuzzer: the rest of the input; other
  // back ends: a drawn length followed by drawn bytes)
  virtual bytes rest(size_t maxlen = 4096)
  {
    size_t n = (size_t) range(0, maxlen);
    bytes b;
    for (size_t i = 0; i < n; i++) b += (char) byte();
    return b;
  }
};

struct TapeSrc : Src
{
  std::vector<uint64_t> in;
  size_t i = 0;
  uint64_t raw(uint64_t lo, uint64_t hi) override { return i < in.size() ? in[i++] : lo; }
};

struct FdpSrc : Src
{
  const uint8_t* d;
  size_t n, i = 0;
  FdpSrc(const uint8_t* d_, size_t n_) : d(d_), n(n_) {}
  uint64_t raw(uint64_t lo, uint64_t hi) override
  {
    uint64_t span = hi - lo;  // >= 1
    int nb = span < 256 ? 1 : span < 65536 ? 2 : span < (1ULL << 32) ? 4 : 8;
    uint64_t v = 0;
    for (int k = 0; k < nb; k++)
    {
      uint8_t b = i < n ? d[i++] : 0;
      v |= (uint64_t) b << (8 * k);
    }
    if (span == UINT64_MAX)
      return v;
    return lo + v % (span + 1);
  }
  bytes rest(size_t maxlen = 4096) override
  {
    (void) maxlen;
    bytes b((const char*) d + i, n - i);
    i = n;
    return b;
  }
};

#ifndef VERIF_LIBFUZZER
struct RcSrc : Src
{
  uint64_t raw(uint64_t lo, uint64_t hi) override
  {
    if (hi - lo == UINT64_MAX)
      return *rc::gen::arbitrary<uint64_t>();
    // offset form keeps rapidcheck shrinking towards lo
    uint64_t off = *rc::gen::resize(100, rc::gen::inRange<uint64_t>(0, hi - lo + 1));
    return lo + off;
  }
};
#endif

// ------------------------------------------------------------------- stats
struct CaseInfo
{
  std::string desc;                  // human readable rendering (also in replay files)
  bool nontrivial = false;           // by the property's stated rule
  uint64_t hash = 0;                 // identity of the case for "distinct"
  std::vector<std::string> classes;  // class labels for the histogram
  std::string discard;               // non-empty => discarded for that reason
  std::vector<std::string> known;    // known-finding signatures hit (and excluded)
  uint64_t sub_evals = 0;            // if a case bundles several evaluations
};

struct Stats
{
  uint64_t evaluations = 0, cases = 0;
  std::unordered_set<uint64_t> nontrivial;
  std::map<std::string, uint64_t> classes, discards, known;
  std::vector<std::string> samples;
  std::string failure_msg, failure_replay;
};

static Stats g_stats;
static std::string g_out;       // stats output path
static std::string g_faildir;   // where replay files go
static std::set<std::string> g_known;  // known-finding signatures (suppressed)
static double g_deadline = 0;   // monotonic seconds; 0 = none
static int g_tier = 0;          // 0 quick, 1 thorough
static bool g_replaying = false;
static double g_first_fail = 0;
static bool g_no_shrink = false;  // set when a failure cannot be shrunk in-process (leaks)

// LeakSanitizer at case granularity.  Leaked memory stays leaked, so once a leak
// has been seen every later check in this process would report it again: the
// first leaking case is kept as it is (no in-process shrinking) and confirmed by
// the driver in fresh processes.
extern "C" int __lsan_do_recoverable_leak_check() __attribute__((weak));
static bool leak_check_now()
{
  if (g_no_shrink || !__lsan_do_recoverable_leak_check)
    return false;
  if (__lsan_do_recoverable_leak_check())
  {
    g_no_shrink = true;
    return true;
  }
  return false;
}
extern const char* PROP_ID;

static inline double now_s()
{
  using namespace std::chrono;
  return duration<double>(steady_clock::now().time_since_epoch()).count();
}

static inline bool is_known(const std::string& sig) { return g_known.count(sig) > 0; }

static void write_tape_file(const std::string& path, const Src& s, const std::string& desc,
                            const std::string& msg)
{
  std::string tmp = path + ".tmp";
  FILE* f = fopen(tmp.c_str(), "w");
  if (!f)
    return;
  fprintf(f, "# property %s\n", PROP_ID);
  std::istringstream is(desc);
  std::string line;
  while (std::getline(is, line)) fprintf(f, "# %s\n", line.c_str());
  if (!msg.empty())
  {
    std::istringstream ms(msg);
    while (std::getline(ms, line)) fprintf(f, "#! %s\n", line.c_str());
  }
  fprintf(f, "tape");
  for (uint64_t v : s.tape) fprintf(f, " %" PRIu64, v);
  fprintf(f, "\n");
  fclose(f);
  rename(tmp.c_str(), path.c_str());
}

static bool read_tape_file(const std::string& path, std::vector<uint64_t>& out)
{
  std::ifstream in(path);
  if (!in)
    return false;
  std::string line;
  bool found = false;
  while (std::getline(in, line))
  {
    if (line.compare(0, 4, "tape") == 0)
    {
      std::istringstream is(line.substr(4));
      uint64_t v;
      while (is >> v) out.push_back(v);
      found = true;
    }
  }
  return found;
}

// called by properties after generation and before touching libyara, so that a
// crash (sanitizer abort, assert) leaves the case behind for the driver
static void checkpoint(const Src& s, const std::string& desc)
{
  if (g_out.empty() || g_replaying)
    return;
  write_tape_file(g_out + ".current", s, desc, "");
}

static void dump_stats()
{
  if (g_out.empty())
    return;
  std::string tmp = g_out + ".tmp";
  FILE* f = fopen(tmp.c_str(), "w");
  if (!f)
    return;
  fprintf(f, "{\"evaluations\":%" PRIu64 ",\"cases\":%" PRIu64 ",\n", g_stats.evaluations, g_stats.cases);
  fprintf(f, "\"nontrivial\":[");
  bool first = true;
  for (uint64_t h : g_stats.nontrivial)
  {
    fprintf(f, "%s\"%016" PRIx64 "\"", first ? "" : ",", h);
    first = false;
  }
  fprintf(f, "],\n");
  auto dump_map = [&](const char* name, const std::map<std::string, uint64_t>& m) {
    fprintf(f, "\"%s\":{", name);
    bool fst = true;
    for (auto& kv : m)
    {
      fprintf(f, "%s%s:%" PRIu64, fst ? "" : ",", json_str(kv.first).c_str(), kv.second);
      fst = false;
    }
    fprintf(f, "},\n");
  };
  dump_map("classes", g_stats.classes);
  dump_map("discards", g_stats.discards);
  dump_map("known", g_stats.known);
  fprintf(f, "\"samples\":[");
  for (size_t i = 0; i < g_stats.samples.size(); i++)
    fprintf(f, "%s%s", i ? "," : "", json_str(g_stats.samples[i]).c_str());
  fprintf(f, "],\n");
  fprintf(f, "\"failure_msg\":%s,\"failure_replay\":%s}\n", json_str(g_stats.failure_msg).c_str(),
          json_str(g_stats.failure_replay).c_str());
  fclose(f);
  rename(tmp.c_str(), g_out.c_str());
}

static void account(const CaseInfo& ci)
{
  g_stats.cases++;
  g_stats.evaluations += ci.sub_evals ? ci.sub_evals : 1;
  if (!ci.discard.empty())
  {
    g_stats.discards[ci.discard]++;
    return;
  }
  if (ci.nontrivial)
    g_stats.nontrivial.insert(ci.hash);
  for (auto& c : ci.classes) g_stats.classes[c]++;
  for (auto& k : ci.known) g_stats.known[k]++;
  // keep a spread of samples: the first few non-trivial ones, then every 2^k-th
  if (ci.nontrivial && !ci.desc.empty())
  {
    uint64_t n = g_stats.nontrivial.size();
    if (g_stats.samples.size() < 3 || ((n & (n - 1)) == 0 && g_stats.samples.size() < 8))
      g_stats.samples.push_back(ci.desc.size() > 1500 ? ci.desc.substr(0, 1500) + "..." : ci.desc);
  }
}

std::string run_case(Src& s, CaseInfo& ci);
void prop_init();
// hand-written cases built directly as structures (independent of the generators,
// so they cannot go stale): regression inputs and known-finding reproductions
struct FixedCase
{
  std::string name;
  std::function<std::string(CaseInfo&)> run;
  // non-empty: run in a forked child; if the child dies (assert, sanitizer, signal)
  // the outcome is this known-finding signature when it is listed, a failure otherwise
  std::string crash_sig;
};
std::vector<FixedCase> fixed_cases();
// optional auxiliary mode of a property binary (exe --aux ...), e.g. a helper
// process for cross-process comparisons
extern "C" int prop_aux(int argc, char** argv) __attribute__((weak));
static std::string g_self;  // path of this executable

static std::string record_failure(const Src& s, const CaseInfo& ci, const std::string& msg)
{
  std::string path = g_faildir + "/" + strf("%s-%d.case", PROP_ID, (int) getpid());
  write_tape_file(path, s, ci.desc, msg);
  g_stats.failure_msg = msg;
  g_stats.failure_replay = path;
  return path;
}

#ifdef VERIF_LIBFUZZER
// ---------------------------------------------------------------- libFuzzer
extern "C" int LLVMFuzzerInitialize(int* argc, char*** argv)
{
  const char* out = getenv("VERIF_STATS_OUT");
  if (out)
    g_out = std::string(out) + strf(".%d", (int) getpid());
  const char* fd = getenv("VERIF_FAILDIR");
  g_faildir = fd ? fd : "/verif/failures";
  const char* kn = getenv("VERIF_KNOWN");
  if (kn)
  {
    std::ifstream in(kn);
    std::string l;
    while (std::getline(in, l))
      if (!l.empty())
        g_known.insert(l);
  }
  const char* t = getenv("VERIF_TIER");
  g_tier = (t && !strcmp(t, "thorough")) ? 1 : 0;
  ys_initialize();
  prop_init();
  atexit(dump_stats);
  return 0;
}

extern "C" int LLVMFuzzerTestOneInput(const uint8_t* data, size_t size)
{
  FdpSrc s(data, size);
  CaseInfo ci;
  std::string msg = run_case(s, ci);
  account(ci);
  if ((g_stats.cases & 0x3ff) == 0)
    dump_stats();
  if (!msg.empty())
  {
    std::string p = record_failure(s, ci, msg);
    dump_stats();
    fprintf(stderr, "PROPERTY-FAILURE %s\n%s\n%s\nreplay=%s\n", PROP_ID, ci.desc.c_str(), msg.c_str(), p.c_str());
    __builtin_trap();
  }
  return 0;
}
#else
// -------------------------------------------------------------- rapidcheck
static int run_fixed(const std::string& only)
{
  int rc = 0;
  for (auto& fc : fixed_cases())
  {
    if (!only.empty() && fc.name != only)
      continue;
    CaseInfo ci;
    std::string msg;
    if (!fc.crash_sig.empty())
    {
      fflush(stdout);
      pid_t pid = fork();
      if (pid == 0)
      {
        std::string m = fc.run(ci);
        _exit(m.empty() ? 0 : 3);
      }
      int st = 0;
      waitpid(pid, &st, 0);
      if (WIFEXITED(st) && WEXITSTATUS(st) == 0)
        msg = "";
      else if (WIFEXITED(st) && WEXITSTATUS(st) == 3)
        msg = "fixed case reported a property failure (run without isolation for details)";
      else if (is_known(fc.crash_sig))
        ci.known.push_back(fc.crash_sig);
      else
        msg = strf("child died (status 0x%x): crash / assertion / sanitizer report", st);
    }
    else
      msg = fc.run(ci);
    for (auto& k : ci.known) printf("KNOWN %s\n", k.c_str());
    if (msg.empty())
      printf("FIXED %s PASS\n", fc.name.c_str());
    else
    {
      printf("FIXED %s FAIL %s\n%s\n", fc.name.c_str(), msg.c_str(), ci.desc.c_str());
      rc = 1;
    }
  }
  return rc;
}

static int replay_file(const std::string& path)
{
  {
    std::ifstream in(path);
    std::string line;
    while (std::getline(in, line))
      if (line.compare(0, 6, "fixed ") == 0)
      {
        g_replaying = true;
        int rc = run_fixed(line.substr(6));
        printf(rc ? "REPLAY-FAIL fixed case\n" : "REPLAY-PASS\n");
        return rc;
      }
  }
  TapeSrc s;
  if (!read_tape_file(path, s.in))
  {
    fprintf(stderr, "cannot read tape from %s\n", path.c_str());
    return 2;
  }
  g_replaying = true;
  CaseInfo ci;
  std::string msg = run_case(s, ci);
  printf("%s\n", ci.desc.c_str());
  for (auto& k : ci.known) printf("KNOWN %s\n", k.c_str());
  if (!ci.discard.empty())
    printf("DISCARD %s\n", ci.discard.c_str());
  if (msg.empty())
  {
    printf("REPLAY-PASS\n");
    return 0;
  }
  printf("REPLAY-FAIL %s\n", msg.c_str());
  return 1;
}

int main(int argc, char** argv)
{
  g_self = argv[0];
  if (argc > 1 && std::string(argv[1]) == "--list-fixed")
  {
    for (auto& fc : fixed_cases()) printf("%s\n", fc.name.c_str());
    return 0;
  }
  if (argc > 1 && std::string(argv[1]) == "--aux")
  {
    ys_initialize();
    prop_init();
    return prop_aux ? prop_aux(argc, argv) : 2;
  }
  std::string replay;
  bool fixed = false;
  uint64_t cases = 1000;
  double budget = 0;
  for (int i = 1; i < argc; i++)
  {
    std::string a = argv[i];
    auto next = [&]() -> std::string { return i + 1 < argc ? argv[++i] : ""; };
    if (a == "--replay")
      replay = next();
    else if (a == "--fixed")
      fixed = true;
    else if (a == "--out")
      g_out = next();
    else if (a == "--cases")
      cases = strtoull(next().c_str(), 0, 10);
    else if (a == "--budget")
      budget = atof(next().c_str());
    else if (a == "--faildir")
      g_faildir = next();
    else if (a == "--tier")
      g_tier = next() == "thorough" ? 1 : 0;
    else if (a == "--known")
    {
      std::ifstream in(next());
      std::string l;
      while (std::getline(in, l))
        if (!l.empty())
          g_known.insert(l);
    }
  }
  if (g_faildir.empty())
    g_faildir = "/verif/failures";
  int irc = ys_initialize();
  if (irc != 0)
  {
    fprintf(stderr, "yr_initialize failed: %d\n", irc);
    return 2;
  }
  prop_init();
  if (!replay.empty())
    return replay_file(replay);
  if (fixed)
  {
    g_replaying = true;
    return run_fixed("");
  }

  if (budget > 0)
    g_deadline = now_s() + budget;
  // RC_PARAMS (seed, max_size) come from the driver; max_success from --cases.
  std::string params = getenv("RC_PARAMS") ? getenv("RC_PARAMS") : "";
  params += strf(" max_success=%" PRIu64 " max_discard_ratio=100 noshrink=0", cases);
  setenv("RC_PARAMS", params.c_str(), 1);

  bool ok = rc::check(std::string(PROP_ID), [&]() {
    if (g_deadline > 0 && now_s() > g_deadline && g_stats.failure_msg.empty())
      return;  // budget used up: remaining iterations are no-ops (not counted)
    // shrinking is bounded in time: once the budget is spent every further
    // candidate "passes", so rapidcheck settles on the smallest failure so far
    if (!g_stats.failure_msg.empty() && (g_no_shrink || now_s() - g_first_fail > (g_tier ? 150.0 : 25.0)))
      return;
    RcSrc s;
    CaseInfo ci;
    double t0 = now_s();
    std::string msg = run_case(s, ci);
    double dt = now_s() - t0;
    if (dt > 2.0)
    {
      g_stats.classes["slow-case(>2s)"]++;
      if (getenv("VERIF_SHOW_SLOW"))
        fprintf(stderr, "SLOW %.1fs\n%s\n", dt, ci.desc.substr(0, 600).c_str());
    }
    if (g_stats.failure_msg.empty())
      account(ci);  // do not count shrink candidates
    if ((g_stats.cases & 0xff) == 0)
      dump_stats();
    if (!msg.empty())
    {
      if (g_stats.failure_msg.empty())
        g_first_fail = now_s();
      record_failure(s, ci, msg);
      RC_FAIL(msg);
    }
  });
  dump_stats();
  if (!g_out.empty())
    unlink((g_out + ".current").c_str());
  return ok ? 0 : 10;
}
#endif

// ------------------------------------------------------------ trace parsing
struct MatchRec
{
  int64_t off;
  int len;
  int key;
  int priv;
  bool operator==(const MatchRec& o) const { return off == o.off && len == o.len && key == o.key; }
};
struct StrRec
{
  std::string ident;
  std::vector<MatchRec> m;
};
struct MsgRec
{
  char kind;  // I D M N T L W F B
  std::string name;
  std::vector<StrRec> strings;
};
struct Trace
{
  int rc = -999;
  std::vector<MsgRec> msgs;
  const MsgRec* rule(const std::string& name) const
  {
    for (auto& m : msgs)
      if ((m.kind == 'M' || m.kind == 'N') && m.name == name)
        return &m;
    return nullptr;
  }
};

static Trace parse_trace(const char* t)
{
  Trace tr;
  std::istringstream is(t);
  std::string line;
  while (std::getline(is, line))
  {
    if (line.empty())
      continue;
    if (line[0] == ' ' && line.size() > 2 && line[1] == 's')
    {
      StrRec sr;
      std::istringstream ls(line.substr(3));
      int n;
      ls >> sr.ident >> n;
      if (!tr.msgs.empty())
        tr.msgs.back().strings.push_back(sr);
    }
    else if (line[0] == ' ' && line.size() > 3 && line[2] == 'm')
    {
      MatchRec m;
      long long off;
      sscanf(line.c_str() + 4, "%lld %d %d %d", &off, &m.len, &m.key, &m.priv);
      m.off = off;
      if (!tr.msgs.empty() && !tr.msgs.back().strings.empty())
        tr.msgs.back().strings.back().m.push_back(m);
    }
    else if (line[0] == 'R')
      tr.rc = atoi(line.c_str() + 2);
    else
    {
      MsgRec m;
      m.kind = line[0];
      m.name = line.size() > 2 ? line.substr(2) : "";
      tr.msgs.push_back(m);
    }
  }
  return tr;
}

// RAII wrappers
struct Rules
{
  ys_rules* r = nullptr;
  Rules() {}
  Rules(const Rules&) = delete;
  Rules& operator=(const Rules&) = delete;
  ~Rules() { ys_rules_free(r); }
};

struct CompileResult
{
  int errors = 0;
  int rc = 0;           // get_rules rc
  int first_error = 0;  // first compile error code
  std::string diag;
};

struct ExtDef
{
  int type;
  std::string id;
  int64_t i = 0;
  double f = 0;
  std::string s;
};

// compile one source in the default namespace
static CompileResult compile_simple(const std::string& src, Rules& out,
                                    const std::vector<ExtDef>& exts = {})
{
  CompileResult cr;
  int err = 0;
  ys_compiler* c = ys_compiler_new(&err);
  if (!c)
  {
    cr.errors = -1;
    cr.rc = err;
    return cr;
  }
  for (auto& e : exts) ys_compiler_define(c, e.type, e.id.c_str(), e.i, e.f, e.s.c_str());
  cr.errors = ys_compiler_add(c, YS_ADD_STRING, src.c_str(), src.size(), nullptr);
  cr.diag = ys_compiler_diag(c);
  cr.first_error = ys_compiler_first_error(c);
  if (cr.errors == 0)
    cr.rc = ys_compiler_get_rules(c, &out.r);
  ys_compiler_free(c);
  return cr;
}

static Trace scan_simple(ys_rules* r, const bytes& buf, int flags = 0, bool with_strings = true,
                         std::string* raw = nullptr)
{
  ys_scan_opts o;
  memset(&o, 0, sizeof o);
  o.flags = flags;
  o.with_strings = with_strings;
  char* t = nullptr;
  ys_scan(r, nullptr, (const uint8_t*) buf.data(), buf.size(), &o, &t);
  Trace tr = parse_trace(t);
  if (raw)
    *raw = t;
  ys_free(t);
  return tr;
}

// text-string literal for rule sources: every byte outside [A-Za-z0-9 ] as \xNN
static std::string text_literal(const bytes& b)
{
  std::string o = "\"";
  char t[8];
  for (unsigned char c : b)
  {
    if (isalnum(c) || c == ' ')
      o += (char) c;
    else
    {
      snprintf(t, sizeof t, "\\x%02x", c);
      o += t;
    }
  }
  return o + "\"";
}
