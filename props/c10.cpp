// C10 - a scanner's results do not depend on its scan history.
#include "rulesetgen.hpp"
#include "samples.hpp"

const char* PROP_ID = "C10";
void prop_init()
{
  ys_set_arena_initial_size(262144);
  g_samples.load();
}

static const char* FIXED_RULES =
    "import \"pe\"\nimport \"elf\"\nimport \"math\"\nimport \"hash\"\nimport \"macho\"\n"
    "rule ep_defined { condition: defined entrypoint }\n"
    "rule ep_low { condition: entrypoint < 0x400 }\n"
    "rule fsize_small { condition: filesize < 100 }\n"
    "rule slow { condition: filesize == 777 and pe.is_pe and for all i in (0..2000000000) : (for all j in (0..2000000000) : (i + j >= 0)) }\n"
    "rule fsize_even { condition: filesize % 2 == 0 }\n"
    "rule is_pe { condition: pe.is_pe }\n"
    "rule pe_secs { condition: pe.number_of_sections > 2 }\n"
    "rule pe_ep { condition: pe.entry_point > 0 }\n"
    "rule is_elf { condition: elf.type == elf.ET_EXEC or elf.type == elf.ET_DYN }\n"
    "rule elf_ep { condition: defined elf.entry_point }\n"
    "rule is_macho { condition: defined macho.magic }\n"
    "rule entropy { condition: math.entropy(0, filesize) > 4.0 }\n"
    "rule crc { condition: hash.crc32(0, filesize) % 2 == 0 }\n"
    "rule md5first { condition: hash.md5(0, 4) == hash.md5(0, 4) and hash.md5(0,2) != \"x\" }\n"
    "rule one_abc { strings: $a = \"abc\" condition: #a == 1 }\n"
    "rule two_abc { strings: $a = \"abc\" condition: #a >= 2 and @a[2] > 0 }\n"
    "rule mz0 { strings: $a = \"MZ\" condition: $a at 0 }\n"
    "rule hexz { strings: $h = { 7F 45 4C 46 } condition: $h }\n"
    "rule rex { strings: $r = /ab+c/ condition: #r > 0 and !r[1] >= 3 }\n"
    "rule ext7 { condition: xi == 7 }\n"
    "rule last_byte { condition: uint8(filesize - 1) == 0x63 }\n"
    "rule fibers { strings: $f = /ab(c{1,50}c){1,50}d/ condition: $f }\n";

// one rule with 221 strings (more than 64 * (rules / 64 + 1)); the last one ("a") reaches the 1,000,000-match limit
// on the HOT buffer, the others never match
static std::string many_rule()
{
  std::string r = "rule many { strings:";
  for (int i = 0; i < 220; i++) r += strf(" $s%03d = \"q%03dzq\"", i, i);
  r += " $hot = \"\\x1f\" condition: any of them }\n";
  // 70 small rules whose verdicts vary with the data, so that per-rule state
  // beyond the first 64 rules is exercised
  for (int i = 0; i < 70; i++)
    r += strf("rule fill_%02d { condition: filesize %% 5 == %d or uint8(%d) == 0x61 }\n", i, i % 5, i % 4);
  return r;
}

struct ScanOp
{
  int kind;        // 0 scan, 1 set flags, 2 set timeout, 3 define xi
  int buf = 0;     // index into buffers
  int entry = 0;   // YS_SCAN_MEM / FILE / FD / BLOCKS
  int script_k = 0, script_action = 0;
  int nblocks = 0;
  std::vector<uint32_t> sizes;
  uint64_t notready = 0;
  int abandon = 0;
  int no_filesize = 0;  // block iterator without a file_size function: `filesize` is undefined in this scan
  int value = 0;
};

static std::string do_scan(ys_rules* R, ys_scanner* sc, const bytes& b, const ScanOp& op, int flags, int timeout)
{
  ys_scan_opts o;
  memset(&o, 0, sizeof o);
  o.entry = op.entry;
  o.flags = flags;
  o.timeout = timeout;
  o.script_k = op.script_k;
  o.script_action = op.script_action;
  o.with_strings = 1;
  o.nblocks = op.nblocks;
  o.block_sizes = op.sizes.data();
  o.notready_mask = op.notready;
  o.abandon_after = op.abandon;
  o.no_filesize = op.no_filesize;
  char* t = nullptr;
  ys_scan(R, sc, (const uint8_t*) b.data(), b.size(), &o, &t);
  std::string s = t;
  ys_free(t);
  return s;
}

std::string run_case(Src& s, CaseInfo& ci)
{
  // rules: the fixed set + a generated namespace
  GenOpts go;
  go.max_rules = 4;
  go.max_ns = 1;
  go.allow_console = true;
  GSet gs = gen_ruleset(s, go);
  for (auto& r : gs.rules) r.ns = "gen";
  // histories that include the 1 MB match-limit buffer use the fixed rules only:
  // a generated atom-less regexp on that buffer takes minutes
  bool hot_case = s.coin(6);
  if (hot_case)
    gs.rules.clear();
  std::vector<int> all;
  for (size_t i = 0; i < gs.rules.size(); i++) all.push_back((int) i);
  std::vector<SourceUnit> units = units_for(gs, all);
  units.insert(units.begin(), SourceUnit{"default", std::string(FIXED_RULES) + many_rule(), YS_ADD_STRING});
  // twelve more namespaces (per-namespace scanner state beyond the first byte / word of its bitmaps),
  // each with a global rule whose verdict depends on the kind of buffer
  for (int k = 0; k < 12; k++)
    units.push_back(SourceUnit{strf("m%02d", k),
                               strf("global rule gate { condition: uint8(0) != 0x%02x }\nrule plain { condition: filesize >= 0 }\n",
                                    k % 3 == 0 ? 0x4d : k % 3 == 1 ? 0x7f : 0x78),
                               YS_ADD_STRING});

  // buffers of different kinds
  std::vector<bytes> bufs = {g_samples.pe, g_samples.elf, g_samples.macho, "", "xxabcxx", "abc abc abbbc ELF"};
  bufs.push_back(gen_set_buffer(s, gs));
  bufs.push_back(g_samples.pe2.substr(0, 20000));
  // SLOW: the first 777 bytes of a PE; rule `slow` then loops until the 1 s timeout that every scan of this
  // buffer carries stops it - a scan cut short by ERROR_SCAN_TIMEOUT while conditions are being evaluated,
  // with modules loaded
  bufs.push_back(g_samples.pe.substr(0, 777));
  std::vector<std::string> kinds = {"PE", "ELF", "MACHO", "EMPTY", "TEXT", "TEXT", "TEXT", "PE", "SLOW", "FIBERS", "HOT"};
  const int SLOW = (int) bufs.size() - 1;
  bufs.push_back("ab" + bytes(3000, 'c'));  // makes rule `fibers` fail with ERROR_TOO_MANY_RE_FIBERS
  bufs.push_back(bytes(1000100, '\x1f'));      // makes $hot exceed YR_MAX_STRING_MATCHES
  const size_t NORMAL = bufs.size() - 2;

  size_t nops = s.range(3, 9);
  std::vector<ScanOp> ops;
  for (size_t i = 0; i < nops; i++)
  {
    ScanOp op;
    op.kind = (int) s.weighted({75, 10, 5, 10});
    if (op.kind == 0)
    {
      switch (s.weighted({hot_case ? 66 : 91, 9, hot_case ? 25 : 0}))
      {
      case 0:
        op.buf = (int) s.range(0, NORMAL - 1);
        if (op.buf == SLOW && !s.coin(40))
          op.buf = 0;  // scans of SLOW take a second each: keep them at a few percent
        break;
      case 1:
        op.buf = (int) NORMAL;  // FIBERS
        break;
      default:
        op.buf = (int) NORMAL + 1;  // HOT (about a second per scan)
      }
      op.entry = (int) s.weighted({50, 8, 7, 35});
      if (op.buf >= (int) NORMAL)
        op.entry = YS_SCAN_MEM;
      int scr = (int) s.weighted({45, 25, 15, 15});
      if (scr == 1 || scr == 2)
      {
        op.script_k = (int) s.range(1, 30);
        op.script_action = scr;
      }
      if (op.entry == YS_SCAN_BLOCKS)
      {
        size_t len = bufs[op.buf].size();
        op.nblocks = (int) s.range(1, 4);
        size_t rest = len;
        for (int b = 0; b < op.nblocks; b++)
        {
          size_t sz = b + 1 == op.nblocks ? rest : (size_t) s.range(0, rest);
          op.sizes.push_back((uint32_t) sz);
          rest -= sz;
        }
        if (scr == 3)
        {
          op.notready = s.range(1, 63);
          op.abandon = s.coin(50) ? 1 : 0;
        }
        op.no_filesize = s.coin(30);
      }
    }
    else if (op.kind == 1)
    {
      static const int F[] = {0, 1, 8, 16, 24, 9};
      op.value = F[s.range(0, 5)];
    }
    else if (op.kind == 2)
      op.value = (int) s.range(0, 1) * 30;
    else
      op.value = (int) s.range(6, 8);
    ops.push_back(op);
  }

  ci.desc = "rules: fixed set (props/c10.cpp) + namespace gen:\n";
  for (auto& u : units)
    if (u.ns == "gen")
      ci.desc += u.text;
  for (auto& op : ops)
  {
    if (op.kind == 0)
      ci.desc += strf("scan %s[%zu bytes] entry=%d script=%d@%d blocks=%d notready=0x%llx abandon=%d%s\n",
                      kinds[op.buf].c_str(), bufs[op.buf].size(), op.entry, op.script_action, op.script_k, op.nblocks,
                      (unsigned long long) op.notready, op.abandon, op.no_filesize ? " iterator-without-file_size" : "");
    else
      ci.desc += strf("%s %d\n", op.kind == 1 ? "set_flags" : op.kind == 2 ? "set_timeout" : "define xi =", op.value);
  }
  ci.hash = hstr(ci.desc);
  checkpoint(s, ci.desc);

  Rules R;
  CompileResult cr = compile_units(units, R, gs.exts);
  if (cr.errors || cr.rc)
  {
    if (compile_discardable(cr))
    {
      ci.discard = strf("constant/limit-rejected(%d)", cr.first_error);
      return "";
    }
    return "rule set rejected: " + cr.diag;
  }
  int err = 0;
  ys_scanner* sc = ys_scanner_new(R.r, &err);
  if (!sc)
    return "scanner creation failed";
  int flags = 0, timeout = 0, xi = 7;
  bool xi_defined = false;
  std::string failure;
  int nscans = 0, abnormal = 0;
  std::set<std::string> kinds_seen;
  bool nontrivial = false;
  for (size_t i = 0; i < ops.size() && failure.empty(); i++)
  {
    const ScanOp& op = ops[i];
    if (op.kind == 1)
      flags = op.value;
    else if (op.kind == 2)
      timeout = op.value;
    else if (op.kind == 3)
    {
      xi = op.value;
      xi_defined = true;
      ys_scanner_define(sc, YS_EXT_INT, "xi", xi, 0, nullptr);
    }
    else
    {
      const int timeout_was = timeout;
      if (op.buf == SLOW)
        timeout = 1;
      std::string got = do_scan(R.r, sc, bufs[op.buf], op, flags, timeout);
      // the same scan on a fresh scanner with the same settings
      ys_scanner* fresh = ys_scanner_new(R.r, &err);
      if (xi_defined)
        ys_scanner_define(fresh, YS_EXT_INT, "xi", xi, 0, nullptr);
      std::string want = do_scan(R.r, fresh, bufs[op.buf], op, flags, timeout);
      ys_scanner_free(fresh);
      timeout = timeout_was;
      ci.sub_evals++;
      if (nscans >= 2 && kinds_seen.size() >= 2 && abnormal >= 1)
        nontrivial = true;
      if (got != want)
        failure = strf("scan #%zu (%s, %zu bytes) on the reused scanner differs from the same scan on a fresh scanner:\n"
                       "--- reused\n%s--- fresh\n%s",
                       i, kinds[op.buf].c_str(), bufs[op.buf].size(), got.substr(0, 1500).c_str(), want.substr(0, 1500).c_str());
      nscans++;
      kinds_seen.insert(kinds[op.buf]);
      if (op.script_action || op.notready || op.buf >= (int) NORMAL || op.buf == SLOW)
        abnormal++;
    }
  }
  ys_scanner_free(sc);  // destroyed after this prefix of the history
  ys_rules_free(R.r);
  R.r = nullptr;
  if (failure.empty() && leak_check_now())
    failure = "memory leaked by this scan history (LeakSanitizer)";
  ci.nontrivial = nontrivial;
  for (auto& k : kinds_seen) ci.classes.push_back("scanned-" + k);
  if (abnormal)
    ci.classes.push_back("abnormal-ending-in-history");
  for (auto& op : ops)
    if (op.kind == 0 && op.abandon && op.notready)
    {
      ci.classes.push_back("suspended-scan-abandoned");
      break;
    }
  return failure;
}

// Process scans (yr_scanner_scan_proc) inside a history.  The generated histories do not contain them (a process
// scan with generated rules can take minutes under ASan); these fixed histories scan an idle /bin/sleep child with
// a small rule set.  The scanner's flags and timeout are set once, right after creation, and never touched again
// (skip_set), the way an application does it - so a flag that a process scan leaves behind is not overwritten by
// the harness before the next scan.
static const char* PROC_RULES =
    "import \"pe\"\nimport \"elf\"\n"
    "rule pe_ep_is_file_offset { condition: pe.is_pe and pe.entry_point == pe.rva_to_offset(pe.entry_point_raw) }\n"
    "rule pe_ep_is_rva { condition: pe.is_pe and pe.entry_point == pe.entry_point_raw }\n"
    "rule ep_is_pe_ep { condition: entrypoint == pe.entry_point }\n"
    "rule ep_is_elf_ep { condition: entrypoint == elf.entry_point }\n"
    "rule elf_ep_in_file { condition: defined elf.entry_point and elf.entry_point < filesize }\n"
    "rule elf_ep_is_va { condition: defined elf.entry_point and elf.entry_point >= 0x10000 }\n"
    "rule mz { strings: $a = \"MZ\" condition: $a at 0 }\n"
    "rule elfmagic { strings: $h = { 7F 45 4C 46 } condition: #h > 0 }\n"
    "rule fsize { condition: filesize > 0 }\n";

static std::string proc_history(CaseInfo& ci, int proc_script_action, int proc_script_k, int proc_timeout_flags, bool bad_pid)
{
  ci.desc = strf("rules: PROC_RULES (props/c10.cpp); scanner flags/timeout set once; process scan of %s "
                 "(callback reply %d at message %d, flags %d); then PE, ELF, PE2 scanned from memory and from a file "
                 "without touching the flags again; each compared with a fresh scanner",
                 bad_pid ? "a pid that does not exist" : "an idle /bin/sleep child", proc_script_action, proc_script_k,
                 proc_timeout_flags);
  Rules R;
  std::vector<SourceUnit> units = {SourceUnit{"default", PROC_RULES, YS_ADD_STRING}};
  CompileResult cr = compile_units(units, R, {});
  if (cr.errors || cr.rc)
    return "PROC_RULES rejected: " + cr.diag;
  int pid = bad_pid ? 0x3ffffff0 : ys_spawn_idle();
  if (pid < 0)
  {
    ys_rules_free(R.r);
    R.r = nullptr;
    ci.discard = "could not spawn /bin/sleep";
    return "";
  }
  int err = 0;
  ys_scanner* sc = ys_scanner_new(R.r, &err);
  ys_scanner_set_flags(sc, proc_timeout_flags);
  ys_scanner_set_timeout(sc, 60);
  std::string failure;
  auto scan = [&](ys_scanner* s, int entry, const bytes& b, int action, int k) {
    ys_scan_opts o;
    memset(&o, 0, sizeof o);
    o.entry = entry;
    o.skip_set = 1;
    o.with_strings = 1;
    o.script_action = action;
    o.script_k = k;
    o.pid = pid;
    char* t = nullptr;
    ys_scan(R.r, s, (const uint8_t*) b.data(), b.size(), &o, &t);
    std::string r = t;
    ys_free(t);
    return r;
  };
  std::string ptrace = scan(sc, YS_SCAN_PROC, "", proc_script_action, proc_script_k);
  // what the process scan itself must look like
  std::string last = ptrace.substr(ptrace.rfind("R ") == std::string::npos ? 0 : ptrace.rfind("R "));
  if (bad_pid && last == "R 0\n")
    failure = "process scan of a pid that does not exist reported success";
  if (!bad_pid && proc_script_action == 0 && last != "R 0\n")
  {
    // ptrace may be forbidden in some sandboxes: then the process entry point cannot be exercised here
    ci.discard = "process scan not permitted here: " + last;
  }
  if (!bad_pid && proc_script_action == 2 && last == "R 0\n")
    failure = "process scan whose callback returned CALLBACK_ERROR reported success";
  const bytes* bufs[] = {&g_samples.pe, &g_samples.elf, &g_samples.pe2};
  const char* names[] = {"PE", "ELF", "PE2"};
  for (int round = 0; round < 2 && failure.empty(); round++)
    for (int b = 0; b < 3 && failure.empty(); b++)
    {
      int entry = round == 0 ? YS_SCAN_MEM : YS_SCAN_FILE;
      std::string got = scan(sc, entry, *bufs[b], 0, 0);
      ys_scanner* fresh = ys_scanner_new(R.r, &err);
      ys_scanner_set_flags(fresh, proc_timeout_flags);
      ys_scanner_set_timeout(fresh, 60);
      std::string want = scan(fresh, entry, *bufs[b], 0, 0);
      ys_scanner_free(fresh);
      ci.sub_evals++;
      if (got != want)
        failure = strf("after a process scan that ended with %s, the scan of %s (entry %d) on the same scanner differs "
                       "from the same scan on a fresh scanner:\n--- reused\n%s--- fresh\n%s",
                       last.c_str(), names[b], entry, got.substr(0, 1500).c_str(), want.substr(0, 1500).c_str());
    }
  ys_scanner_free(sc);
  if (!bad_pid)
    ys_kill_idle(pid);
  ys_rules_free(R.r);
  R.r = nullptr;
  if (failure.empty() && leak_check_now())
    failure = "memory leaked by this scan history (LeakSanitizer)";
  ci.nontrivial = ci.discard.empty();
  ci.classes.push_back("process-scan-in-history");
  return failure;
}

std::vector<FixedCase> fixed_cases()
{
  std::vector<FixedCase> v;
  v.push_back({"proc-scan-ok-then-files", [](CaseInfo& ci) { return proc_history(ci, 0, 0, 0, false); }, ""});
  v.push_back({"proc-scan-callback-error-then-files", [](CaseInfo& ci) { return proc_history(ci, 2, 1, 0, false); }, ""});
  v.push_back({"proc-scan-callback-error-late-then-files", [](CaseInfo& ci) { return proc_history(ci, 2, 3, 0, false); }, ""});
  v.push_back({"proc-scan-aborted-then-files", [](CaseInfo& ci) { return proc_history(ci, 1, 2, 0, false); }, ""});
  v.push_back({"proc-scan-fast-mode-error-then-files", [](CaseInfo& ci) { return proc_history(ci, 2, 2, 1, false); }, ""});
  v.push_back({"proc-scan-bad-pid-then-files", [](CaseInfo& ci) { return proc_history(ci, 0, 0, 0, true); }, ""});
  return v;
}
