// C04 - rule conditions evaluate per the documented language semantics.
#include "condmodel.hpp"

const char* PROP_ID = "C04";
void prop_init() { ys_set_arena_initial_size(65536); }

static const char* SIG_UNDEF_QUANT = "C04:undefined-quantifier-treated-as-all";
static const char* SIG_UNDEF_BOUND = "C04:for-loop-with-undefined-range-bound-is-false-not-undefined";

struct CondCase
{
  std::vector<TextStr> strs;
  std::vector<std::string> ids;
  std::vector<Expr> conds;
  std::vector<bytes> bufs;
};

static std::vector<ExtDef> std_exts()
{
  std::vector<ExtDef> v;
  ExtDef a;
  a.type = YS_EXT_INT;
  a.id = "xi";
  a.i = 7;
  v.push_back(a);
  ExtDef b;
  b.type = YS_EXT_FLOAT;
  b.id = "xf";
  b.f = 2.5;
  v.push_back(b);
  ExtDef c;
  c.type = YS_EXT_BOOL;
  c.id = "xb";
  c.i = 1;
  v.push_back(c);
  ExtDef d;
  d.type = YS_EXT_STR;
  d.id = "xs";
  d.s = "abc";
  v.push_back(d);
  return v;
}

static std::string rules_text(const CondCase& c)
{
  PrintCtx pc{&c.ids};
  std::string src;
  for (size_t r = 0; r < c.conds.size(); r++)
  {
    src += strf("rule r%zu {", r);
    if (!c.strs.empty())
    {
      src += " strings:";
      for (size_t i = 0; i < c.strs.size(); i++) src += " " + print_text_string(c.strs[i], c.ids[i]);
    }
    src += " condition: " + print_expr(c.conds[r], pc) + " }\n";
  }
  return src;
}

static std::string check_case(const CondCase& c, CaseInfo& ci, const Src* srcp, const GenCtx* stats)
{
  std::string src = rules_text(c);
  ci.desc = src;
  for (auto& b : c.bufs) ci.desc += "buffer[" + std::to_string(b.size()) + "] \"" + esc(b) + "\"\n";
  ci.hash = hstr(ci.desc);
  if (srcp)
    checkpoint(*srcp, ci.desc);
  Rules rules;
  CompileResult cr = compile_simple(src, rules, std_exts());
  if (cr.errors != 0 || cr.rc != 0)
  {
    // documented compile-time rejections of constant expressions (C12/C15 material)
    int fe = cr.first_error;
    if (fe == 52 /*integer overflow*/ || fe == 44 /*division by zero*/ || fe == 64 /*invalid value*/ ||
        fe == 62 /*invalid percentage*/ || fe == 54 /*invalid operand: constant negative shift*/)
    {
      ci.discard = strf("constant-rejected(%d)", fe);
      return "";
    }
    return "well-typed condition rejected by the compiler: " + cr.diag;
  }
  std::map<std::string, Val> ext;
  ext["xi"] = Val::in(7);
  ext["xf"] = Val::fl(2.5);
  ext["xb"] = Val::b(true);
  ext["xs"] = Val::st("abc");
  for (size_t bi = 0; bi < c.bufs.size(); bi++)
  {
    const bytes& B = c.bufs[bi];
    Trace tr = scan_simple(rules.r, B, 0, false);
    ci.sub_evals += c.conds.size();
    if (tr.rc != 0)
      return strf("scan of buffer %zu returned %d", bi, tr.rc);
    EvalCtx cx;
    cx.buf = &B;
    cx.ext = ext;
    for (auto& t : c.strs)
    {
      std::vector<MatchRec> ml;
      for (auto& kv : model_text_matches(t, B))
        ml.push_back({(int64_t) kv.first, kv.second.begin()->first, 0, 0});
      cx.matches.push_back(ml);
    }
    for (size_t r = 0; r < c.conds.size(); r++)
    {
      cx.saw_undef_quantifier = cx.saw_undef_loop_bound = false;
      Val v = eval(c.conds[r], cx);
      bool expect = truthy(v);
      std::string name = strf("r%zu", r);
      const MsgRec* m = tr.rule("default:" + name);
      if (!m)
        return "rule " + name + " not reported";
      bool got = m->kind == 'M';
      cx.rules[name] = got;  // later rules see the engine's verdict, so one defect is reported once
      if (got == expect)
        continue;
      if (cx.saw_undef_quantifier && is_known(SIG_UNDEF_QUANT))
      {
        ci.known.push_back(SIG_UNDEF_QUANT);
        continue;
      }
      if (cx.saw_undef_loop_bound && is_known(SIG_UNDEF_BOUND))
      {
        ci.known.push_back(SIG_UNDEF_BOUND);
        continue;
      }
      return strf("rule %s on buffer %zu: engine says %s, documented semantics give %s (value %s)", name.c_str(), bi,
                  got ? "match" : "no match", expect ? "match" : "no match",
                  v.defined() ? (truthy(v) ? "true" : "false") : "undefined");
    }
    // SCAN_FLAGS_FAST_MODE lets the engine stop collecting matches of a string once found, but only for strings
    // whose condition needs nothing but their presence: the verdicts must be those of the normal scan
    Trace tf = scan_simple(rules.r, B, 1 /*SCAN_FLAGS_FAST_MODE*/, false);
    if (tf.rc != 0)
      return strf("fast-mode scan of buffer %zu returned %d", bi, tf.rc);
    for (size_t r = 0; r < c.conds.size(); r++)
    {
      std::string name = strf("r%zu", r);
      const MsgRec* m = tf.rule("default:" + name);
      if (!m)
        return "rule " + name + " not reported in fast mode";
      if ((m->kind == 'M') != cx.rules[name])
        return strf("rule %s on buffer %zu: %s in fast mode (SCAN_FLAGS_FAST_MODE) but %s in a normal scan", name.c_str(), bi,
                    m->kind == 'M' ? "match" : "no match", cx.rules[name] ? "match" : "no match");
    }
  }
  if (stats)
  {
    ci.nontrivial = (stats->n_ops >= 3 && stats->levels.size() >= 2) || stats->n_loops > 0 || stats->n_undef > 0;
    if (stats->n_loops)
      ci.classes.push_back("loop");
    if (stats->n_undef)
      ci.classes.push_back("undefined-operand");
    if (stats->levels.size() >= 3)
      ci.classes.push_back(">=3-precedence-levels");
    for (int l : stats->levels) ci.classes.push_back(strf("level-%02d", l));
  }
  else
    ci.nontrivial = true;
  return "";
}

std::string run_case(Src& s, CaseInfo& ci)
{
  CondCase c;
  static const char* pats[] = {"abc", "bc", "xyz", "aa", "a", "hello", "ab"};
  size_t nstr = s.range(0, 3);
  static const char* names[] = {"$_s1", "$_t1", "$_s2", "$_t2"};
  for (size_t i = 0; i < nstr; i++)
  {
    TextStr t;
    t.pat = pats[s.range(0, 6)];
    t.nocase = s.coin(15);
    c.strs.push_back(t);
    c.ids.push_back(names[i]);
  }
  GenCtx g;
  g.str_ids = c.ids;
  size_t nrules = 1 + s.weighted({50, 25, 15, 10});
  for (size_t r = 0; r < nrules; r++)
  {
    g.budget = (int) s.range(3, 28);
    g.loops = 0;
    g.in_for_of = false;
    g.loopvars.clear();
    Expr e = gen_bool(s, g, (int) s.range(1, 6));
    // every declared string must be referenced (else "unreferenced string"): the
    // identifiers start with '_' which the manual exempts from that check
    c.conds.push_back(e);
    g.rule_ids.push_back(strf("r%zu", r));
  }
  size_t nbuf = s.range(1, 3);
  for (size_t i = 0; i < nbuf; i++)
  {
    BufFeatures bf;
    if (c.strs.empty())
    {
      bytes b;
      size_t n = s.range(0, 40);
      for (size_t k = 0; k < n; k++) b += (char) s.byte();
      c.bufs.push_back(b);
    }
    else
    {
      bytes B = gen_text_buffer(s, c.strs, bf, 400);
      std::vector<int64_t> targets;
      for (auto& e : c.conds) collect_offset_targets(e, targets);
      if (!targets.empty() && s.coin(60))
      {
        size_t n = s.range(1, 3);
        for (size_t k = 0; k < n; k++)
        {
          int64_t t = targets[s.range(0, targets.size() - 1)];
          place_at(B, (size_t) t, c.strs[s.range(0, c.strs.size() - 1)].pat);
        }
      }
      c.bufs.push_back(B);
    }
  }
  return check_case(c, ci, &s, &g);
}

// ---------------------------------------------------------------- fixed cases
static Expr E(Expr::K k, Ty ty)
{
  Expr e;
  e.k = k;
  e.ty = ty;
  return e;
}
static Expr undef_read()
{
  Expr r = E(Expr::READ, TI);
  r.rd = 3;
  r.ch.push_back(mk_int(1000));
  return r;
}
static Expr cmp(const char* op, Expr a, Expr b)
{
  Expr e = E(Expr::CMP, TB);
  e.name = op;
  e.ch = {a, b};
  return e;
}
static Expr un(Expr::K k, Expr a)
{
  Expr e = E(k, TB);
  e.ch = {a};
  return e;
}
static Expr flt(double v)
{
  Expr e = E(Expr::FLT_LIT, TF);
  e.fval = v;
  return e;
}

std::vector<FixedCase> fixed_cases()
{
  std::vector<FixedCase> v;
  auto one = [](Expr cond, std::vector<TextStr> strs, bytes buf) {
    CondCase c;
    static const char* names[] = {"$_s1", "$_t1", "$_s2"};
    c.strs = strs;
    for (size_t i = 0; i < strs.size(); i++) c.ids.push_back(names[i]);
    c.conds = {cond};
    c.bufs = {buf};
    return c;
  };
  TextStr abc;
  abc.pat = "abc";
  {  // not (1.5 < uint8(1000)) and not (1.5 > uint8(1000)): both undefined -> false
    CondCase c = one(un(Expr::NOT, cmp("<", flt(1.5), undef_read())), {}, "xx");
    v.push_back({"float-lt-undefined", [=](CaseInfo& ci) { return check_case(c, ci, nullptr, nullptr); }});
    CondCase d = one(un(Expr::NOT, cmp(">", flt(1.5), undef_read())), {}, "xx");
    v.push_back({"float-gt-undefined", [=](CaseInfo& ci) { return check_case(d, ci, nullptr, nullptr); }});
  }
  {  // known finding: uint8(1000) of them
    Expr of = E(Expr::OF, TB);
    of.q = 3;
    of.qe = {undef_read()};
    of.set = {0};
    of.set_text = "them";
    CondCase c = one(of, {abc}, "xabcx");
    v.push_back({"known-undefined-quantifier", [=](CaseInfo& ci) { return check_case(c, ci, nullptr, nullptr); }});
  }
  {  // known finding: not for any i in (1..uint8(1000)) : (true)
    Expr f = E(Expr::FOR_RANGE, TB);
    f.q = 1;
    f.name = "i";
    Expr t = E(Expr::BOOL_LIT, TB);
    t.ival = 1;
    f.ch = {t, mk_int(1), undef_read()};
    CondCase c = one(un(Expr::NOT, f), {}, "xx");
    v.push_back({"known-undefined-loop-bound", [=](CaseInfo& ci) { return check_case(c, ci, nullptr, nullptr); }});
  }
  return v;
}
