// C17 - incomplete or damaged compiled-rule files are rejected, never half-loaded.
// Fault enumeration: every prefix of every generated image, and every
// single-field rewrite of its header and buffer table.
#include "rulesetgen.hpp"
#include <sys/wait.h>

const char* PROP_ID = "C17";
void prop_init() { ys_set_arena_initial_size(262144); }

static const char* SIG_RELOC_CUT = "C17:prefix-cut-inside-trailing-relocation-table-accepted";
static const char* SIG_SIZE_SHIFT = "C17:buffer-size-field-rewritten:following-sections-shift:no-integrity-check";

static std::string scan_text(ys_rules* r, const bytes& b)
{
  ys_scan_opts o;
  memset(&o, 0, sizeof o);
  o.with_strings = 1;
  o.timeout = 10;
  char* t = nullptr;
  ys_scan(r, nullptr, (const uint8_t*) b.data(), b.size(), &o, &t);
  std::string s = t;
  ys_free(t);
  return s;
}

struct Damage
{
  bytes image;        // the damaged image
  std::string what;   // description
  int region = 0;     // region class id
  bool reloc_cut = false;
  bool is_cut = false;
};

// outcome codes written by the child, one byte per damage point
enum : unsigned char
{
  O_REJECTED = 'r',   // load returned an error and no rules
  O_IDENTICAL = 'i',  // load succeeded and the rules behave like the intact ones
  O_DIFFERENT = 'd',  // load succeeded, behaviour differs
  O_HALF = 'h',       // load returned an error but left a rules pointer, or success without rules
};

// run damage points [from, n) in a forked child; returns outcomes (shorter than
// requested if the child died: the first missing one is the crashing point)
static std::string run_range(const std::vector<Damage>& dmg, size_t from, const std::vector<bytes>& bufs,
                             const std::vector<std::string>& expect, int load_mode)
{
  int pfd[2];
  if (pipe(pfd) != 0)
    return "";
  pid_t pid = fork();
  if (pid == 0)
  {
    close(pfd[0]);
    for (size_t k = from; k < dmg.size(); k++)
    {
      ys_rules* L = nullptr;
      uint32_t chunks[3] = {7, 1, 4096};
      int rc = ys_rules_load_mem((const uint8_t*) dmg[k].image.data(), dmg[k].image.size(), load_mode, chunks, 3, &L);
      unsigned char out;
      if (rc != 0)
        out = L ? O_HALF : O_REJECTED;
      else if (!L)
        out = O_HALF;
      else
      {
        bool same = true;
        for (size_t b = 0; b < bufs.size() && same; b++) same = scan_text(L, bufs[b]) == expect[b];
        if (same)
        {
          char* d = ys_rules_describe(L);
          ys_free(d);
        }
        out = same ? O_IDENTICAL : O_DIFFERENT;
      }
      if (L)
        ys_rules_free(L);
      if (write(pfd[1], &out, 1) != 1)
        _exit(9);
    }
    _exit(0);
  }
  close(pfd[1]);
  std::string outcomes;
  char buf[4096];
  ssize_t k;
  while ((k = read(pfd[0], buf, sizeof buf)) > 0) outcomes.append(buf, k);
  close(pfd[0]);
  int st = 0;
  waitpid(pid, &st, 0);
  return outcomes;
}

std::string run_case(Src& s, CaseInfo& ci)
{
  GenOpts go;
  go.max_rules = 5;
  GSet gs = gen_ruleset(s, go);
  std::vector<bytes> bufs;
  for (size_t i = 0; i < 2; i++) bufs.push_back(gen_set_buffer(s, gs, 600));
  int load_mode = (int) s.weighted({70, 30});
  std::vector<int> all;
  for (size_t i = 0; i < gs.rules.size(); i++) all.push_back((int) i);
  std::vector<SourceUnit> units = units_for(gs, all);
  std::string src;
  for (auto& u : units) src += "// namespace " + u.ns + "\n" + u.text;
  ci.desc = src + strf("load through %s\n", load_mode ? "a chunked pipe" : "an in-memory stream");
  ci.hash = hstr(ci.desc);
  checkpoint(s, ci.desc);

  Rules R;
  CompileResult cr = compile_units(units, R, gs.exts);
  if (cr.errors || cr.rc)
  {
    if (compile_discardable(cr))
    {
      ci.discard = strf("constant/limit-rejected(%d)", cr.first_error);
      return "";
    }
    return "generated rule set rejected: " + cr.diag;
  }
  uint8_t* img = nullptr;
  size_t len = 0;
  if (ys_rules_save_mem(R.r, &img, &len) != 0)
    return "save failed";
  bytes image((char*) img, len);
  ys_free(img);
  std::vector<std::string> expect;
  for (auto& b : bufs) expect.push_back(scan_text(R.r, b));

  // layout: 6-byte header, num_buffers x 12-byte table (u64 offset, u32 size), bodies, relocations
  size_t nb = (unsigned char) image[5];
  size_t table_end = 6 + nb * 12;
  size_t bodies_end = table_end;
  std::vector<size_t> body_start(nb), body_size(nb);
  for (size_t i = 0; i < nb; i++)
  {
    uint32_t sz;
    memcpy(&sz, image.data() + 6 + i * 12 + 8, 4);
    body_start[i] = bodies_end;
    body_size[i] = sz;
    bodies_end += sz;
  }
  if (bodies_end > image.size())
    return "saved image is shorter than its own buffer table says";

  std::vector<Damage> dmg;
  // every proper prefix (files above 64 KiB: all boundaries +-2 and 2000 sampled interior points)
  std::set<size_t> cuts;
  if (image.size() <= 65536)
    for (size_t n = 0; n < image.size(); n++) cuts.insert(n);
  else
  {
    for (size_t b : body_start)
      for (int d = -2; d <= 2; d++)
        if ((long) b + d >= 0 && b + d < image.size())
          cuts.insert(b + d);
    for (size_t r = bodies_end; r < image.size(); r += 8)
      for (int d = -1; d <= 1; d++) cuts.insert(r + d);
    for (size_t n = 0; n < table_end + 2; n++) cuts.insert(n);
    for (int k = 0; k < 2000; k++) cuts.insert((size_t) s.range(0, image.size() - 1));
  }
  for (size_t n : cuts)
  {
    Damage d;
    d.image = image.substr(0, n);
    d.reloc_cut = n >= bodies_end;
    if (n < 6)
      d.region = 1, d.what = strf("cut at byte %zu (header)", n);
    else if (n < table_end)
      d.region = 100 + (int) ((n - 6) / 12), d.what = strf("cut at byte %zu (table entry %zu)", n, (n - 6) / 12);
    else if (n < bodies_end)
    {
      size_t bi = 0;
      while (bi + 1 < nb && n >= body_start[bi + 1]) bi++;
      d.region = 200 + (int) bi;
      d.what = strf("cut at byte %zu (body of buffer %zu)", n, bi);
    }
    else
      d.region = 300 + (int) std::min<size_t>((n - bodies_end) / 8, 50), d.what = strf("cut at byte %zu (relocation %zu)", n, (n - bodies_end) / 8);
    dmg.push_back(d);
  }
  size_t ncuts = dmg.size();
  for (auto& d : dmg) d.is_cut = true;
  // single-field rewrites of header and table
  for (size_t i = 0; i < 4; i++)
    for (int v : {0, (int) 'X', 0xff})
    {
      Damage d;
      d.image = image;
      d.image[i] = (char) v;
      d.region = 400;
      d.what = strf("magic byte %zu = 0x%02x", i, v);
      if (d.image != image)
        dmg.push_back(d);
    }
  for (int v = 0; v < 256; v++)
  {
    Damage d;
    d.image = image;
    d.image[4] = (char) v;
    d.region = 401;
    d.what = strf("version = %d", v);
    if (d.image != image)
      dmg.push_back(d);
  }
  for (int v = 0; v < 256; v++)
  {
    Damage d;
    d.image = image;
    d.image[5] = (char) v;
    d.region = 402;
    d.what = strf("num_buffers = %d (was %zu)", v, nb);
    if (d.image != image)
      dmg.push_back(d);
  }
  for (size_t i = 0; i < nb; i++)
  {
    uint32_t sz = (uint32_t) body_size[i];
    uint64_t off;
    memcpy(&off, image.data() + 6 + i * 12, 8);
    for (uint32_t v : {0u, 1u, sz - 1, sz + 1, 0x80000000u, 0xffffffffu, sz / 2, sz + 8})
    {
      Damage d;
      d.image = image;
      memcpy(&d.image[6 + i * 12 + 8], &v, 4);
      d.region = 500 + (int) i;
      d.what = strf("table entry %zu size = %u (was %u)", i, v, sz);
      if (d.image != image)
        dmg.push_back(d);
    }
    for (uint64_t v : {(uint64_t) 0, (uint64_t) 1, off + 1, off - 1, (uint64_t) 0x80000000u, (uint64_t) 0xffffffffu, ~(uint64_t) 0})
    {
      Damage d;
      d.image = image;
      memcpy(&d.image[6 + i * 12], &v, 8);
      d.region = 600 + (int) i;
      d.what = strf("table entry %zu offset = %llu (was %llu)", i, (unsigned long long) v, (unsigned long long) off);
      if (d.image != image)
        dmg.push_back(d);
    }
  }

  // consistent truncations: the sections from i on are dropped together with everything behind them and their
  // table entries say "empty" - every length in the file is right, the rule set is still incomplete
  for (size_t i = 0; i < nb; i++)
  {
    Damage d;
    d.image = image.substr(0, body_start[i]);
    for (size_t k = i; k < nb; k++) memset(&d.image[6 + k * 12 + 8], 0, 4);
    d.region = 700 + (int) i;
    d.what = strf("sections %zu.. dropped and declared empty (file of %zu bytes)", i, d.image.size());
    dmg.push_back(d);
  }
  {
    Damage d;
    d.image = image.substr(0, table_end);
    for (size_t k = 0; k < nb; k++) memset(&d.image[6 + k * 12], 0, 12);
    d.region = 720;
    d.what = "header and an all-zero section table, nothing else";
    dmg.push_back(d);
  }

  // an inconsistent table entry next to the relocation list: a section that is empty in the intact file is
  // declared 1, 4 or 7 bytes long (that many bytes are inserted, so every other length stays right) and one
  // relocation entry pointing into it is appended - a section too small to hold a pointer cannot hold one
  for (size_t i = 0; i < nb; i++)
  {
    if (body_size[i] != 0)
      continue;
    for (uint32_t sz : {1u, 4u, 7u})
      for (uint32_t off : {0u, 0x200u, 0x7fffff00u, 0xffffff00u})
      {
        Damage d;
        d.image = image.substr(0, body_start[i]) + bytes(sz, '\0') + image.substr(body_start[i]);
        memcpy(&d.image[6 + i * 12 + 8], &sz, 4);
        uint32_t ref[2] = {(uint32_t) i, off};
        d.image.append((const char*) ref, 8);
        d.region = 800 + (int) i;
        d.what = strf("empty section %zu declared %u bytes long, relocation entry (%zu, 0x%x) appended", i, sz, i, off);
        dmg.push_back(d);
      }
  }

  // the same claim through the command-line tool (cli/yara.c `-C`): a few cut points per file,
  // with and without a `-d` definition on the command line; the tool must refuse the file with
  // an error message and a non-zero exit status (cuts inside the relocation table are the listed
  // known finding and are not sampled here)
  if (const char* clidir = getenv("VERIF_CLI_DIR"))
  {
    std::vector<size_t> pick = {0, 3, 6 + (size_t) s.range(0, 143), table_end + (size_t) s.range(0, bodies_end - table_end - 1),
                                bodies_end - 1};
    char dpath[] = "/tmp/verif-c17-XXXXXX";
    int dfd = mkstemp(dpath);
    close(dfd);
    std::string cli_failure;
    for (size_t n : pick)
    {
      if (n >= bodies_end || n >= image.size())
        continue;
      FILE* f = fopen(dpath, "wb");
      fwrite(image.data(), 1, n, f);
      fclose(f);
      for (int with_d = 0; with_d < 2 && cli_failure.empty(); with_d++)
      {
        std::string cmd = std::string("ASAN_OPTIONS=detect_leaks=0:exitcode=99 UBSAN_OPTIONS=exitcode=99:halt_on_error=1 ") + clidir + "/yara -C " +
                          (with_d ? "-d xi=7 " : "") + dpath + " /dev/null >/dev/null 2>" + dpath + ".err";
        int st = system(cmd.c_str());
        ci.sub_evals++;
        std::ifstream ef(std::string(dpath) + ".err");
        std::stringstream es;
        es << ef.rdbuf();
        bool said_error = es.str().find_first_not_of(" \t\r\n") != std::string::npos;  // any diagnostic (print_error has no fixed prefix)
        if (!WIFEXITED(st) || WEXITSTATUS(st) == 0 || WEXITSTATUS(st) >= 99 || !said_error)
          cli_failure = strf("image of %zu bytes cut at byte %zu: `yara -C %s<file> /dev/null` ends with wait status 0x%x and stderr: %s",
                             image.size(), n, with_d ? "-d xi=7 " : "", st, es.str().substr(0, 300).c_str());
      }
    }
    unlink(dpath);
    unlink((std::string(dpath) + ".err").c_str());
    if (!cli_failure.empty())
      return cli_failure;
    ci.classes.push_back("yara -C on cut files");
  }

  // field rewrites and consistent truncations first, then the prefix cuts in ascending order: the enumeration
  // of a file ends after 40 crashing points, and the crashing points of the unchanged tree are the cuts
  // inside the trailing relocation table
  std::stable_sort(dmg.begin(), dmg.end(), [](const Damage& a, const Damage& b) { return !a.is_cut && b.is_cut; });

  // enumerate, resuming behind every crashing point
  std::string outcomes;
  std::vector<size_t> crashed;
  while (outcomes.size() < dmg.size())
  {
    std::string part = run_range(dmg, outcomes.size(), bufs, expect, load_mode);
    outcomes += part;
    if (outcomes.size() < dmg.size())
    {
      crashed.push_back(outcomes.size());
      outcomes += 'c';
      if (crashed.size() > 40)
        break;  // (cuts inside the relocation table - the listed known finding - crash by the hundred: they come last)
    }
  }
  ci.sub_evals = outcomes.size();
  std::set<int> regions;
  std::string failure;
  size_t reloc_accepted = 0, size_shift = 0;
  for (size_t k = 0; k < outcomes.size(); k++)
  {
    regions.insert(dmg[k].region);
    char o = outcomes[k];
    bool is_cut = dmg[k].is_cut;
    if (o == O_REJECTED)
      continue;
    if (!is_cut && o == O_IDENTICAL && dmg[k].region >= 600 && dmg[k].region < 700)
      continue;  // the table's `offset` field is not used by the format (sections follow each other): a rewrite of it changes nothing
    if (is_cut && dmg[k].reloc_cut && (o == O_IDENTICAL || o == O_DIFFERENT || o == 'c') && is_known(SIG_RELOC_CUT))
    {
      reloc_accepted++;
      continue;
    }
    if (!is_cut && dmg[k].region >= 500 && dmg[k].region < 600 && is_known(SIG_SIZE_SHIFT))
    {
      size_shift++;
      continue;
    }
    if (failure.empty())
    {
      const char* how = o == 'c'           ? "crashes the process (assertion / sanitizer report / signal)"
                        : o == O_HALF      ? "returns inconsistently (error with a rule set, or success without one)"
                        : o == O_DIFFERENT ? "is loaded successfully but the rules behave differently from the intact ones"
                                           : "is loaded successfully although the file is incomplete";
      failure = strf("image of %zu bytes, %s: loading it %s", image.size(), dmg[k].what.c_str(), how);
    }
  }
  if (reloc_accepted)
    ci.known.push_back(SIG_RELOC_CUT);
  if (size_shift)
    ci.known.push_back(SIG_SIZE_SHIFT);
  // distinct non-trivial = distinct (file, region class)
  ci.nontrivial = true;
  ci.classes.push_back(strf("regions-per-file>=%d", (int) (regions.size() / 10) * 10));
  ci.classes.push_back(image.size() <= 65536 ? "all-prefixes" : "sampled-prefixes");
  for (int r : regions)
  {
    // the driver counts distinct hashes; fold the region into the case hash one by one
    g_stats.nontrivial.insert(ci.hash ^ ((uint64_t) r * 0x9e3779b97f4a7c15ULL));
  }
  ci.desc += strf("image %zu bytes, %zu cut points, %zu field rewrites, %zu crashes, %zu accepted cuts in the relocation table\n",
                  image.size(), ncuts, dmg.size() - ncuts, crashed.size(), reloc_accepted);
  return failure;
}

std::vector<FixedCase> fixed_cases()
{
  std::vector<FixedCase> v;
  v.push_back({"known-cut-in-relocation-table", [](CaseInfo& ci) -> std::string {
                 Rules R;
                 CompileResult cr = compile_simple("rule a { strings: $a = \"abc\" condition: $a }\n", R);
                 if (cr.errors || cr.rc)
                   return "rule rejected";
                 uint8_t* img = nullptr;
                 size_t len = 0;
                 if (ys_rules_save_mem(R.r, &img, &len) != 0)
                   return "save failed";
                 bytes image((char*) img, len);
                 ys_free(img);
                 size_t nb = (unsigned char) image[5], end = 6 + nb * 12;
                 for (size_t i = 0; i < nb; i++)
                 {
                   uint32_t sz;
                   memcpy(&sz, image.data() + 6 + i * 12 + 8, 4);
                   end += sz;
                 }
                 ci.desc = strf("image of %zu bytes cut at %zu (8 bytes into its relocation table)", image.size(), end + 8);
                 std::vector<Damage> d(1);
                 d[0].image = image.substr(0, end + 8);
                 std::string out = run_range(d, 0, {"xabcx"}, {scan_text(R.r, "xabcx")}, 0);
                 if (out == std::string(1, (char) O_REJECTED))
                   return "";
                 if (is_known(SIG_RELOC_CUT))
                 {
                   ci.known.push_back(SIG_RELOC_CUT);
                   return "";
                 }
                 return "a file cut inside its relocation table is loaded successfully";
               }});
  v.push_back({"known-size-field-shift", [](CaseInfo& ci) -> std::string {
                 Rules R;
                 CompileResult cr = compile_simple("rule a { strings: $a = \"abc\" condition: $a }\n", R);
                 if (cr.errors || cr.rc)
                   return "rule rejected";
                 uint8_t* img = nullptr;
                 size_t len = 0;
                 if (ys_rules_save_mem(R.r, &img, &len) != 0)
                   return "save failed";
                 bytes image((char*) img, len);
                 ys_free(img);
                 uint32_t sz;
                 memcpy(&sz, image.data() + 6 + 6 * 12 + 8, 4);
                 sz += 8;
                 memcpy(&image[6 + 6 * 12 + 8], &sz, 4);
                 ci.desc = "size of table entry 6 increased by 8";
                 std::vector<Damage> d(1);
                 d[0].image = image;
                 std::string out = run_range(d, 0, {"xabcx"}, {scan_text(R.r, "xabcx")}, 0);
                 if (out == std::string(1, (char) O_REJECTED) || out == std::string(1, (char) O_IDENTICAL))
                   return "";
                 if (is_known(SIG_SIZE_SHIFT))
                 {
                   ci.known.push_back(SIG_SIZE_SHIFT);
                   return "";
                 }
                 return "a file whose buffer-size field was rewritten is half-loaded (crash or different behaviour)";
               }});
  return v;
}
