// C06 - scanning arbitrary bytes with any module is memory-safe and terminates.
// libFuzzer target (also linkable as a rapidcheck/replay binary).  The harness
// rules are generated from the module declarations of the tree under test.
#include "common.hpp"
#include <dirent.h>

const char* PROP_ID = "C06";

// --------------------------------------------------------- declaration tree
struct Decl
{
  char kind = 0;  // i f s { [ < (
  std::string name;
  char ret = 0;
  std::vector<std::string> protos;
  std::vector<Decl> ch;
};

static size_t parse_decl(const std::vector<std::string>& lines, size_t i, Decl& out)
{
  std::istringstream is(lines[i]);
  std::string k;
  is >> k >> out.name;
  out.kind = k[0];
  if (out.kind == '(')
  {
    std::string r, p;
    is >> r;
    out.ret = r[0];
    while (is >> p) out.protos.push_back(p.substr(1, p.size() - 2));
    return i + 1;
  }
  if (out.kind == 'i' || out.kind == 'f' || out.kind == 's')
    return i + 1;
  char close = out.kind == '{' ? '}' : out.kind == '[' ? ']' : '>';
  i++;
  while (i < lines.size())
  {
    std::istringstream ls(lines[i]);
    std::string t;
    ls >> t;
    if (t[0] == close && t.size() == 1)
      return i + 1;
    Decl c;
    i = parse_decl(lines, i, c);
    out.ch.push_back(c);
  }
  return i;
}

static bool load_decl(const std::string& module, Decl& root)
{
  char* d = ys_module_declarations(module.c_str());
  if (!d)
    return false;
  std::vector<std::string> lines;
  std::istringstream is(d);
  std::string l;
  while (std::getline(is, l))
    if (!l.empty())
      lines.push_back(l);
  ys_free(d);
  if (lines.empty())
    return false;
  parse_decl(lines, 0, root);
  return true;
}

// ------------------------------------------------------------ rule generator
struct RuleGen
{
  int var = 0;
  std::vector<std::string> clauses;  // one rule each
  size_t nfields = 0, nfuncs = 0, nloops = 0;

  std::string arg(char t, int variant)
  {
    switch (t)
    {
    case 'i':
    {
      static const char* v[] = {"0", "1", "0x1000", "filesize", "0xFFFFFFFF", "(0 - 1)"};
      return v[variant % 6];
    }
    case 's':
    {
      static const char* v[] = {"\"kernel32.dll\"", "\"\"", "\".text\"", "\"CompanyName\"", "\"libc.so.6\""};
      return v[variant % 5];
    }
    case 'r':
    {
      static const char* v[] = {"/./", "/^a.*z$/i", "/kernel32/i"};
      return v[variant % 3];
    }
    case 'f':
    {
      static const char* v[] = {"0.5", "127.5", "0.0"};
      return v[variant % 3];
    }
    case 'b':
      return variant % 2 ? "true" : "filesize > 0";
    }
    return "0";
  }

  std::string value_clause(const std::string& p, char t)
  {
    if (t == 'i')
      return "(" + p + " == 0 or " + p + " + 1 > 2 or true)";
    if (t == 'f')
      return "(" + p + " == 0.0 or true)";
    return "(" + p + " == \"\" or " + p + " contains \"a\" or true)";
  }

  // clauses touching everything below `p` (a value of declaration d)
  std::string touch(const std::string& p, const Decl& d, int loops)
  {
    switch (d.kind)
    {
    case 'i':
    case 'f':
    case 's':
      nfields++;
      return value_clause(p, d.kind);
    case '(':
    {
      std::string all;
      int variant = 0;
      for (auto& proto : d.protos)
        for (int rep = 0; rep < (proto.empty() ? 1 : 3); rep++)
        {
          std::string call = p + "(";
          for (size_t a = 0; a < proto.size(); a++) call += (a ? ", " : "") + arg(proto[a], variant + (int) a * 2 + rep);
          call += ")";
          variant++;
          nfuncs++;
          all += (all.empty() ? "" : " and ") + value_clause(call, d.ret == '?' ? 'i' : d.ret);
        }
      return all.empty() ? "true" : all;
    }
    case '{':
    {
      std::string all;
      for (auto& m : d.ch) all += (all.empty() ? "" : " and ") + touch(p + "." + m.name, m, loops);
      return all.empty() ? "true" : all;
    }
    case '[':
    {
      const Decl& item = d.ch[0];
      std::string all = touch(p + "[0]", item, 4) + " and " + touch(p + "[1000000]", item, 4);
      if (loops < 3)
      {
        std::string v = strf("v%d", var++);
        nloops++;
        all += " and (for any " + v + " in " + p + " : (" + touch(v, item, loops + 1) + ") or true)";
      }
      return all;
    }
    case '<':
    {
      const Decl& item = d.ch[0];
      std::string all = touch(p + "[\"CompanyName\"]", item, 4) + " and " + touch(p + "[\"\"]", item, 4);
      if (loops < 3)
      {
        std::string k = strf("k%d", var), v = strf("v%d", var);
        var++;
        nloops++;
        all += " and (for any " + k + ", " + v + " in " + p + " : ((" + k + " == \"\" or true) and " + touch(v, item, loops + 1) +
               ") or true)";
      }
      return all;
    }
    }
    return "true";
  }

  void module(const std::string& name, const Decl& root)
  {
    // one rule per top-level member, so that every member is evaluated whatever
    // happens in the others
    for (auto& m : root.ch) clauses.push_back(touch(name + "." + m.name, m, 0));
  }
};

static std::vector<std::string> family_modules(const std::string& fam)
{
  if (fam == "pe")
    return {"pe", "dotnet", "hash", "math"};
  if (fam == "elf")
    return {"elf", "hash"};
  if (fam == "macho")
    return {"macho"};
  if (fam == "dex")
    return {"dex"};
  return {"math", "hash", "string", "time", "console", "pe", "elf", "macho", "dex", "dotnet"};
}

static std::string g_family = "pe";
static ys_rules* g_rules = nullptr;
static std::set<uint64_t> g_seed_heads;
static size_t g_nrules = 0, g_nfields = 0, g_nfuncs = 0;

static std::string build_rules(const std::string& fam, size_t* nrules)
{
  std::string src;
  RuleGen rg;
  for (auto& m : family_modules(fam))
  {
    Decl root;
    if (!load_decl(m, root))
      continue;
    src += "import \"" + m + "\"\n";
    rg.module(m, root);
  }
  if (fam == "generic")
  {
    // generic family: data-dependent functions over ranges around the buffer borders
    rg.clauses.clear();
    const char* rng[][2] = {{"0", "filesize"}, {"filesize - 1", "2"}, {"filesize", "1"}, {"1", "filesize * 2"},
                            {"0 - 1", "4"}, {"0", "0"}, {"filesize \\ 2", "filesize"}, {"3", "0 - 1"}};
    for (auto& r : rng)
    {
      std::string a = std::string(r[0]) + ", " + r[1];
      for (const char* f : {"hash.md5", "hash.sha1", "hash.sha256"})
        rg.clauses.push_back(std::string("(") + f + "(" + a + ") == \"\" or true)");
      for (const char* f : {"hash.crc32", "hash.checksum32", "math.mode", "math.entropy", "math.mean", "math.serial_correlation",
                            "math.monte_carlo_pi"})
        rg.clauses.push_back(std::string("(") + f + "(" + a + ") == 0 or true)");
      rg.clauses.push_back("(math.deviation(" + a + ", 127.5) == 0.0 or true)");
      rg.clauses.push_back("(math.count(0x41, " + a + ") == 0 or math.percentage(0, " + a + ") == 0.0 or true)");
    }
    rg.clauses.push_back("(string.to_int(\"0x7fffffffffffffff\") == 0 or string.length(\"abc\") == 3 or true)");
    rg.clauses.push_back("(time.now() > 0 or true)");
    rg.clauses.push_back("(console.log(\"a\") and console.log(\"n: \", filesize) and console.hex(\"h: \", uint8(0)) and console.log(1.5)) or true");
    rg.clauses.push_back("(pe.is_pe or defined elf.type or defined macho.magic or defined dex.header.magic or dotnet.is_dotnet or true)");
  }
  size_t n = 0;
  for (auto& c : rg.clauses) src += strf("rule t%zu { condition: %s }\n", n++, c.c_str());
  // validity gates (for the non-triviality rule of the evidence)
  src += "rule gate_pe { condition: pe.is_pe }\n";
  if (fam == "pe" || fam == "generic")
    src += "rule gate_dotnet { condition: dotnet.is_dotnet }\n";
  if (fam == "elf" || fam == "generic")
    src += "rule gate_elf { condition: defined elf.type }\n";
  if (fam == "macho" || fam == "generic")
    src += "rule gate_macho { condition: defined macho.magic or defined macho.fat_magic }\n";
  if (fam == "dex" || fam == "generic")
    src += "rule gate_dex { condition: defined dex.header.magic }\n";
  if (fam != "pe" && fam != "generic")
    src = "import \"pe\"\n" + src;
  *nrules = n;
  g_nfields = rg.nfields;
  g_nfuncs = rg.nfuncs;
  return src;
}

void prop_init()
{
  const char* f = getenv("VERIF_FAMILY");
  if (f)
    g_family = f;
  ys_set_arena_initial_size(0);
  std::string src = build_rules(g_family, &g_nrules);
  if (getenv("VERIF_DUMP_RULES"))
    fprintf(stderr, "%s", src.c_str());
  Rules R;
  CompileResult cr = compile_simple(src, R);
  if (cr.errors || cr.rc)
  {
    fprintf(stderr, "C06: harness rules for family %s do not compile:\n%s\n", g_family.c_str(), cr.diag.substr(0, 3000).c_str());
    _exit(3);
  }
  g_rules = R.r;
  R.r = nullptr;
  const char* sd = getenv("VERIF_SEED_DIR");
  if (sd)
  {
    DIR* d = opendir(sd);
    struct dirent* e;
    while (d && (e = readdir(d)))
    {
      std::string p = std::string(sd) + "/" + e->d_name;
      std::ifstream in(p, std::ios::binary);
      char buf[256];
      in.read(buf, sizeof buf);
      g_seed_heads.insert(fnv1a(buf, (size_t) in.gcount()));
    }
    if (d)
      closedir(d);
  }
}

std::string run_case(Src& s, CaseInfo& ci)
{
  bytes data = s.rest(65536);
  ys_scan_opts o;
  memset(&o, 0, sizeof o);
  o.flags = 4 | 8;  // SCAN_FLAGS_NO_TRYCATCH | REPORT_RULES_MATCHING: nothing may hide a fault
  o.timeout = 30;
  char* t = nullptr;
  int rc = ys_scan(g_rules, nullptr, (const uint8_t*) data.data(), data.size(), &o, &t);
  std::string tr = t;
  ys_free(t);
  ci.hash = fnv1a(data.data(), data.size());
  bool gate = false;
  for (const char* g : {"gate_pe", "gate_dotnet", "gate_elf", "gate_macho", "gate_dex"})
    if (tr.find(std::string("M default:") + g + "\n") != std::string::npos)
    {
      gate = true;
      ci.classes.push_back(g);
    }
  bool novel_head = !g_seed_heads.count(fnv1a(data.data(), std::min<size_t>(256, data.size())));
  ci.nontrivial = gate && novel_head;
  if (ci.nontrivial)
    ci.desc = strf("family %s, %zu bytes, head %s", g_family.c_str(), data.size(), hexs(data.substr(0, 48)).c_str());
  // every harness rule is written as `(...) or true`, so all of them must be
  // reported as matching when the scan succeeds; a missing one means an
  // evaluation was cut short without an error
  if (rc == 0)
  {
    size_t matched = 0, pos = 0;
    while ((pos = tr.find("M default:t", pos)) != std::string::npos)
    {
      matched++;
      pos += 5;
    }
    if (matched != g_nrules)
      return strf("scan succeeded but only %zu of %zu always-true harness rules matched", matched, g_nrules);
  }
  else if (rc != 26 /*timeout*/ && rc != 46 /*fibers*/ && rc != 25 /*stack overflow*/ && rc != 1)
    return strf("scan of arbitrary data returned the undocumented-for-data error %d", rc);
  if (rc == 26)
    return "scan did not finish within the 30 s timeout";
  return "";
}

std::vector<FixedCase> fixed_cases() { return {}; }

#ifdef VERIF_LIBFUZZER
// ---------------------------------------------------- structure-aware mutator
extern "C" size_t LLVMFuzzerMutate(uint8_t* data, size_t size, size_t max_size);

static uint32_t rd32(const uint8_t* d, size_t size, size_t off)
{
  if (off + 4 > size)
    return 0;
  return d[off] | d[off + 1] << 8 | d[off + 2] << 16 | (uint32_t) d[off + 3] << 24;
}

extern "C" size_t LLVMFuzzerCustomMutator(uint8_t* data, size_t size, size_t max_size, unsigned int seed)
{
  uint64_t r = seed * 6364136223846793005ULL + 1442695040888963407ULL;
  auto next = [&]() {
    r = r * 6364136223846793005ULL + 1442695040888963407ULL;
    return (uint32_t) (r >> 33);
  };
  int mode = next() % 10;
  if (mode < 5 && size >= 8)
  {
    // field-aware: overwrite one 16/32/64-bit field with a boundary value
    size_t off;
    int w = (int[]){2, 4, 4, 8}[next() % 4];
    std::vector<size_t> known;
    if (size > 0x40 && data[0] == 'M' && data[1] == 'Z')
    {
      size_t pe = rd32(data, size, 0x3c);
      known.push_back(0x3c);
      if (pe + 0x108 < size)
      {
        for (size_t k : {6, 20, 22, 24 + 16, 24 + 28, 24 + 32, 24 + 36, 24 + 56, 24 + 60, 24 + 92, 24 + 108})
          known.push_back(pe + k);
        size_t opt = pe + 24, nsec = data[pe + 6] | data[pe + 7] << 8, optsz = data[pe + 20] | data[pe + 21] << 8;
        for (int dd = 0; dd < 16; dd++)
        {
          known.push_back(opt + 96 + dd * 8);
          known.push_back(opt + 100 + dd * 8);
          known.push_back(opt + 112 + dd * 8);
          known.push_back(opt + 116 + dd * 8);
        }
        for (size_t sec = 0; sec < nsec && sec < 16; sec++)
          for (size_t k : {8, 12, 16, 20, 36}) known.push_back(opt + optsz + sec * 40 + k);
        // follow a data directory RVA into the file through the section table and
        // aim at 16/32-bit words anywhere inside the directory's data (import /
        // export / resource / version-info / certificate / debug structures)
        size_t dd = next() % 16;
        size_t drva = rd32(data, size, opt + 96 + dd * 8), dsz = rd32(data, size, opt + 100 + dd * 8);
        size_t doff = drva;
        for (size_t sec = 0; sec < nsec && sec < 32; sec++)
        {
          size_t sh = opt + optsz + sec * 40;
          size_t va = rd32(data, size, sh + 12), vs = rd32(data, size, sh + 8), raw = rd32(data, size, sh + 20);
          if (drva >= va && drva < va + (vs ? vs : 1))
          {
            doff = raw + (drva - va);
            break;
          }
        }
        if (doff && doff < size)
        {
          size_t span = dsz ? dsz : 64;
          if (doff + span > size)
            span = size - doff;
          if (dd == 2)
            span = std::min<size_t>(size - doff, 8192);  // resources: the leaves follow the directory
          for (int k = 0; k < 24 && span > 8; k++) known.push_back(doff + ((next() % span) & ~(size_t) 1));
        }
      }
    }
    else if (size > 0x40 && data[0] == 0x7f && data[1] == 'E')
    {
      bool is64 = data[4] == 2;
      for (size_t k : {16, 18, 24, 28, 32, 36, 40, 42, 44, 46, 48, 50, 52, 54, 56, 58, 60, 62}) known.push_back(k);
      size_t shoff = is64 ? rd32(data, size, 0x28) : rd32(data, size, 0x20);
      size_t phoff = is64 ? rd32(data, size, 0x20) : rd32(data, size, 0x1c);
      // every 32-bit word (and so both halves of every 64-bit field) of every section and program header
      size_t shnum = is64 ? (data[0x3c] | data[0x3d] << 8) : (data[0x30] | data[0x31] << 8);
      size_t phnum = is64 ? (data[0x38] | data[0x39] << 8) : (data[0x2c] | data[0x2d] << 8);
      size_t shent = is64 ? 64 : 40, phent = is64 ? 56 : 32;
      if (shoff && shoff < size)
        for (size_t k = 0; k < std::min<size_t>(shnum, 64) * shent && shoff + k + 4 <= size; k += 4) known.push_back(shoff + k);
      if (phoff && phoff < size)
        for (size_t k = 0; k < std::min<size_t>(phnum, 32) * phent && phoff + k + 4 <= size; k += 4) known.push_back(phoff + k);
      // 64-bit fields start on 8-byte boundaries: prefer full-width writes there
      if (is64 && next() % 2)
        w = 8;
    }
    else if (size > 0x20 && (rd32(data, size, 0) == 0xfeedface || rd32(data, size, 0) == 0xfeedfacf ||
                             rd32(data, size, 0) == 0xcefaedfe || rd32(data, size, 0) == 0xcffaedfe ||
                             rd32(data, size, 0) == 0xbebafeca || rd32(data, size, 0) == 0xcafebabe))
    {
      for (size_t k = 4; k < 256; k += 4) known.push_back(k);
    }
    else if (size > 0x70 && data[0] == 'd' && data[1] == 'e' && data[2] == 'x')
    {
      for (size_t k = 0x20; k < 0x70; k += 4) known.push_back(k);
      size_t base = rd32(data, size, 0x34 + (next() % 12) * 4);
      if (base && base < size)
        for (size_t k = 0; k < 64; k += 4) known.push_back(base + k);
    }
    if (!known.empty() && next() % 4)
      off = known[next() % known.size()];
    else
      off = (next() % size) & ~(size_t) (w > 4 ? 3 : w - 1);
    if (off + w <= size)
    {
      uint64_t old = 0;
      for (int k = 0; k < w; k++) old |= (uint64_t) data[off + k] << (8 * k);
      uint64_t vals[] = {0, 1, size - 1, size, size + 1, 0x7fffffff, 0x80000000u, 0xffffffffu, old + 1, old - 1,
                         size - off, 0xffff, old * 2, size / 2, 0x7fffffffffffffffULL,
                         // values that make `base + offset + size` wrap around
                         ~(uint64_t) 0, ~(uint64_t) 0xff, (uint64_t) 0 - size, (uint64_t) 0 - off, ~(uint64_t) 0 - old};
      uint64_t v = vals[next() % 20];
      bool be = next() % 8 == 0;
      for (int k = 0; k < w; k++) data[off + (be ? w - 1 - k : k)] = (uint8_t) (v >> (8 * k));
      return size;
    }
  }
  if (mode == 5 && size > 4)
  {
    size_t ns = next() % size;  // truncate
    return ns ? ns : 1;
  }
  if (mode == 6 && size > 0x200 && data[0] == 'M' && data[1] == 'Z')
  {
    // composite: put the end of the file right behind a table that some data directory points to
    // (follow an RVA found inside the directory through the section table, cut a few entries
    // behind its target) and, half of the time, also bump a count-like field of the directory -
    // the shape "table at the very end of the data, count one too large"
    size_t pe = rd32(data, size, 0x3c);
    if (pe + 0x108 < size)
    {
      size_t opt = pe + 24, nsec = data[pe + 6] | data[pe + 7] << 8, optsz = data[pe + 20] | data[pe + 21] << 8;
      auto map_rva = [&](size_t rva) -> size_t {
        for (size_t sec = 0; sec < nsec && sec < 32; sec++)
        {
          size_t sh = opt + optsz + sec * 40;
          if (sh + 40 > size)
            break;
          size_t va = rd32(data, size, sh + 12), vs = rd32(data, size, sh + 8), raw = rd32(data, size, sh + 20);
          if (rva >= va && rva < va + (vs ? vs : 1))
            return raw + (rva - va);
        }
        return rva;
      };
      for (int attempt = 0; attempt < 16; attempt++)
      {
        size_t dd = next() % 16;
        size_t drva = rd32(data, size, opt + 96 + dd * 8);
        if (!drva)
          continue;
        size_t doff = map_rva(drva);
        if (!doff || doff + 48 > size)
          continue;
        size_t target = map_rva(rd32(data, size, doff + 4 * (next() % 12)));
        if (target < 0x200 || target >= size)
          continue;
        auto bump = [&](size_t foff, size_t limit) {
          uint32_t old = rd32(data, size, foff);
          uint32_t v = (uint32_t[]){old + 1, old + 2, old * 2, old + 16, old + 3}[next() % 5];
          if (foff + 4 <= limit)
            for (int k = 0; k < 4; k++) data[foff + k] = (uint8_t) (v >> (8 * k));
        };
        if (next() % 2)
        {
          // variant without truncation: redirect one RVA field of the directory to the last few bytes
          // of the file (so that table runs into the end of the data) and bump a small count field
          size_t last = opt + optsz + (nsec ? (std::min<size_t>(nsec, 32) - 1) : 0) * 40;
          size_t lva = rd32(data, size, last + 12), lraw = rd32(data, size, last + 20);
          size_t aoff = doff + 4 * (next() % 12);
          if (lraw && lraw < size && aoff + 4 <= size)
          {
            uint32_t v = (uint32_t) (lva + (size - lraw) - 2 * (1 + next() % 8));
            for (int k = 0; k < 4; k++) data[aoff + k] = (uint8_t) (v >> (8 * k));
            for (int tries = 0; tries < 8; tries++)
            {
              size_t foff = doff + 4 * (next() % 12);
              if (foff != aoff && rd32(data, size, foff) < 0x10000)
              {
                bump(foff, size);
                break;
              }
            }
            return size;
          }
        }
        size_t cut = target + 2 * (next() % 48);
        if (cut >= size)
          cut = size - (next() % 4);
        if (next() % 2)
          bump(doff + 4 * (next() % 12), cut);
        return cut;
      }
    }
  }
  return LLVMFuzzerMutate(data, size, max_size);
}
#endif
