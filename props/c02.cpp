// C02 - hex-string matches are exactly the documented occurrences.
#include "remodel.hpp"

const char* PROP_ID = "C02";
void prop_init() { ys_set_arena_initial_size(65536); }

static bool has_kind_anywhere(const Node& n, Node::K k) { return re_has_kind(n, k); }
static bool is_chained(const Node& root)
{
  if (root.k != Node::CONCAT)
    return false;
  for (size_t i = 1; i + 1 < root.ch.size(); i++)
    if (root.ch[i].k == Node::JUMP && (root.ch[i].hi < 0 || root.ch[i].lo > 200 || root.ch[i].hi > 200))
      return true;
  return false;
}

static bool chain_point(const Node& j) { return j.k == Node::JUMP && (j.hi < 0 || j.lo > 200 || j.hi > 200); }

// Known finding: when a hex string is split at a large jump, a piece that is
// not the last one and can match with several lengths is recorded with ONE
// length only; an occurrence that needs another length of that piece to line up
// with the following piece is missed.
static const char* SIG_VARLEN_PIECE = "C02:chained-string:variable-length-piece-before-large-jump:occurrence-missed";
static bool has_variable_nonfinal_piece(const Node& root)
{
  if (!is_chained(root))
    return false;
  long mn = 0, mx = 0;
  for (size_t i = 0; i < root.ch.size(); i++)
  {
    if (i > 0 && i + 1 < root.ch.size() && chain_point(root.ch[i]))
    {
      if (mn != mx)
        return true;
      mn = mx = 0;
      continue;
    }
    mn += min_span(root.ch[i]);
    mx += max_span(root.ch[i]);
  }
  return false;
}

static bytes gen_hex_buffer(Src& s, const Node& root, int& planted, int& partial)
{
  MatchFlags f;
  f.dotall = true;
  bytes alpha;
  collect_bytes(root, alpha);
  alpha += (char) 0x00;
  alpha += (char) 0x41;
  alpha += (char) 0xff;
  bytes B;
  size_t nseg = s.range(1, 8);
  for (size_t i = 0; i < nseg && B.size() < 4096; i++)
  {
    switch (s.weighted({25, 40, 25, 10}))
    {
    case 0:
    {
      size_t n = s.range(0, 24);
      for (size_t k = 0; k < n; k++) B += s.coin(70) ? alpha[s.range(0, alpha.size() - 1)] : (char) s.byte();
      break;
    }
    case 1:
      sample_node(s, root, f, alpha, B);
      planted++;
      break;
    case 2:
      // a part of the pattern only: extra heads / tails for chained patterns
      if (root.k == Node::CONCAT)
      {
        size_t a = s.range(0, root.ch.size() - 1), b = s.range(a, root.ch.size() - 1);
        for (size_t k = a; k <= b; k++) sample_node(s, root.ch[k], f, alpha, B);
        partial++;
      }
      else
        sample_node(s, root, f, alpha, B);
      break;
    default:
    {
      size_t n = s.range(0, 400);
      unsigned char c = (unsigned char) alpha[s.range(0, alpha.size() - 1)];
      B.append(n, (char) c);
    }
    }
  }
  if (B.size() > 4096)
    B.resize(4096);
  return B;
}

static std::string check_case(const Node& root, bool priv, int form, const std::vector<bytes>& bufs,
                              CaseInfo& ci, const Src* srcp, int planted, int partial)
{
  static const char* forms[] = {"$h", "#h > 0", "any of them", "@h >= 0"};
  std::string src = strf("rule r { strings: $h = { %s }%s condition: %s }\n", print_hex(root).c_str(),
                         priv ? " private" : "", forms[form]);
  ci.desc = src;
  for (auto& b : bufs) ci.desc += "buffer[" + std::to_string(b.size()) + "] " + hexs(b) + "\n";
  ci.hash = hstr(ci.desc);
  if (srcp)
    checkpoint(*srcp, ci.desc);
  Rules rules;
  CompileResult cr = compile_simple(src, rules);
  if (cr.errors != 0 || cr.rc != 0)
  {
    if (cr.first_error == 45 || cr.first_error == 49)
    {
      ci.discard = "regexp-limit";
      return "";
    }
    return "legal hex string rejected by the compiler: " + cr.diag;
  }
  MatchFlags f;
  f.dotall = true;
  bool any_expected = false;
  long mx = max_span(root);
  for (size_t bi = 0; bi < bufs.size(); bi++)
  {
    Trace tr = scan_simple(rules.r, bufs[bi]);
    ci.sub_evals++;
    if (tr.rc != 0)
      return strf("scan of buffer %zu returned %d", bi, tr.rc);
    auto L = model_pattern_matches(root, bufs[bi], f, 1);
    if (!L.empty())
      any_expected = true;
    const MsgRec* m = tr.rule("default:r");
    if (!m || m->strings.size() != 1)
      return "rule r not reported with exactly one string";
    const auto& got = m->strings[0].m;
    for (size_t k = 1; k < got.size(); k++)
      if (got[k].off <= got[k - 1].off)
        return strf("buffer %zu: match list not strictly ascending at index %zu", bi, k);
    std::set<int64_t> have;
    for (auto& g : got)
    {
      have.insert(g.off);
      auto it = g.off < 0 ? L.end() : L.find((size_t) g.off);
      if (it == L.end())
        return strf("buffer %zu: reported match at offset %lld (len %d) but no byte sequence starting there satisfies the pattern",
                    bi, (long long) g.off, g.len);
      if (!it->second.count(g.len))
        return strf("buffer %zu: match at %lld reported with length %d; satisfying lengths start at %d (%zu of them)", bi,
                    (long long) g.off, g.len, *it->second.begin(), it->second.size());
    }
    for (auto& kv : L)
      if (!have.count((int64_t) kv.first))
      {
        if (has_variable_nonfinal_piece(root) && is_known(SIG_VARLEN_PIECE))
        {
          ci.known.push_back(SIG_VARLEN_PIECE);
          break;
        }
        return strf("buffer %zu: pattern satisfied at offset %zu (length %d) but no match reported", bi, kv.first,
                    *kv.second.begin());
      }
    bool verdict = m->kind == 'M';
    if (verdict != !L.empty() && !(ci.known.size() && got.empty()))
      return strf("buffer %zu: verdict %d but %zu matching offsets", bi, (int) verdict, L.size());
  }
  bool special = has_kind_anywhere(root, Node::MASK) || has_kind_anywhere(root, Node::ANY) ||
                 has_kind_anywhere(root, Node::JUMP) || has_kind_anywhere(root, Node::ALT);
  ci.nontrivial = any_expected && special;
  if (has_kind_anywhere(root, Node::ALT))
    ci.classes.push_back("alternation(general-VM)");
  else
    ci.classes.push_back("fast-regexp-path");
  if (is_chained(root))
    ci.classes.push_back(has_variable_nonfinal_piece(root) ? "chained(variable-length piece: misses tolerated as known finding)" : "chained");
  if (has_kind_anywhere(root, Node::JUMP))
    ci.classes.push_back("jump");
  if (has_kind_anywhere(root, Node::MASK))
    ci.classes.push_back("mask/negation");
  if (any_expected)
    ci.classes.push_back("has-occurrence");
  if (partial)
    ci.classes.push_back("buf-partial-instances");
  if (mx >= (1 << 29))
    ci.classes.push_back("unbounded-jump");
  return "";
}

std::string run_case(Src& s, CaseInfo& ci)
{
  Node root = gen_hex_string(s);
  bool priv = s.coin(10);
  int form = (int) s.range(0, 3);
  size_t nbuf = s.range(1, 2);
  std::vector<bytes> bufs;
  int planted = 0, partial = 0;
  for (size_t i = 0; i < nbuf; i++) bufs.push_back(gen_hex_buffer(s, root, planted, partial));
  return check_case(root, priv, form, bufs, ci, &s, planted, partial);
}

static Node hx(std::initializer_list<Node> l)
{
  Node c;
  c.k = Node::CONCAT;
  c.ch = l;
  number_nodes(c);
  return c;
}
static Node hb(unsigned char v) { return mk_lit(v); }
static Node hj(int lo, int hi)
{
  Node j;
  j.k = Node::JUMP;
  j.lo = lo;
  j.hi = hi;
  return j;
}

std::vector<FixedCase> fixed_cases()
{
  std::vector<FixedCase> v;
  {  // known finding: { 00 [4-13] 00 [201] 00 00 }
    Node root = hx({hb(0), hj(4, 13), hb(0), hj(201, 201), hb(0), hb(0)});
    bytes buf(211, '\0');
    buf += '\x01';
    buf += bytes(2, '\0');
    v.push_back({"known-variable-length-piece", [=](CaseInfo& ci) { return check_case(root, false, 0, {buf}, ci, nullptr, 1, 0); }});
  }
  {  // fixed: tail pieces verified out of offset order ({ 00 [201] ( 00 00 00 | ?? ) 01 })
    Node alt;
    alt.k = Node::ALT;
    Node a1;
    a1.k = Node::CONCAT;
    a1.ch = {hb(0), hb(0), hb(0)};
    Node any;
    any.k = Node::ANY;
    alt.ch = {a1, any};
    Node root = hx({hb(0), hj(201, 201), alt, hb(1)});
    bytes buf(205, '\0');
    buf += '\x01';
    v.push_back({"fixed-chain-tail-out-of-order", [=](CaseInfo& ci) { return check_case(root, false, 0, {buf}, ci, nullptr, 1, 0); }});
  }
  {
    Node root = hx({hb(0x41), hj(0, -1), hb(0x42)});
    v.push_back({"plain-unbounded", [=](CaseInfo& ci) { return check_case(root, false, 0, {bytes("xAyyAyBzzB")}, ci, nullptr, 1, 0); }});
  }
  return v;
}
