// Hex strings and regular expressions: one AST, two printers, two generators and
// one set-semantics reference matcher (DESIGN.md 3.3).  The matcher is written
// from docs/writingrules.rst (sections "Hexadecimal strings", "Regular
// expressions"); where the manual is silent the assumption is stated inline.
#pragma once
#include <bitset>
#include <unordered_map>
#include "textmodel.hpp"

struct Node
{
  enum K
  {
    LIT,     // one byte equal to val (regexp: modulo case when nocase)
    ANY,     // regexp '.', hex '??'
    MASK,    // hex: (byte & mask) == val, negated when neg
    CLASS,   // regexp class / \w \d \s ...
    CONCAT,
    ALT,
    REPEAT,  // child repeated lo..hi times (hi < 0: unbounded)
    JUMP,    // hex jump / regexp .{n,m}: lo..hi arbitrary bytes (hi < 0: unbounded)
    EMPTY,
    BOL,
    EOL,
    WB,
    NWB
  } k = EMPTY;
  uint8_t val = 0, mask = 0xff;
  bool neg = false;
  std::bitset<256> cls;     // CLASS: the listed set, before negation
  bool cls_neg = false;
  std::string text;         // CLASS: printed spelling
  std::vector<Node> ch;
  int lo = 0, hi = 0;
  bool greedy = true;
  int style = 0;            // REPEAT spelling: 0 '*', 1 '+', 2 '?', 3 {n}, 4 {n,}, 5 {,m}, 6 {n,m}
  int id = -1;              // preorder number (matcher memo key)
};

static int number_nodes(Node& n, int next = 0)
{
  n.id = next++;
  for (auto& c : n.ch) next = number_nodes(c, next);
  return next;
}

static inline bool is_word_byte(unsigned char c) { return is_alnum_byte(c) || c == '_'; }
static inline bool is_space_byte(unsigned char c)
{
  return c == ' ' || c == '\t' || c == '\n' || c == '\r' || c == '\v' || c == '\f';
}
static inline unsigned char other_case(unsigned char c)
{
  if (c >= 'a' && c <= 'z')
    return c - 32;
  if (c >= 'A' && c <= 'Z')
    return c + 32;
  return c;
}

// ------------------------------------------------------------------ matcher
struct MatchFlags
{
  bool nocase = false, dotall = false, wide = false;
};

struct Bits
{
  std::vector<uint64_t> w;
  Bits() {}
  explicit Bits(size_t n) : w((n + 64) / 64, 0) {}
  void set(size_t i) { w[i >> 6] |= 1ULL << (i & 63); }
  bool get(size_t i) const { return (w[i >> 6] >> (i & 63)) & 1; }
  bool any() const
  {
    for (auto x : w)
      if (x)
        return true;
    return false;
  }
  bool or_in(const Bits& o)  // returns true if something new was added
  {
    bool added = false;
    for (size_t i = 0; i < w.size(); i++)
    {
      uint64_t nw = w[i] | o.w[i];
      if (nw != w[i])
        added = true;
      w[i] = nw;
    }
    return added;
  }
  template <class F>
  void each(F f) const
  {
    for (size_t i = 0; i < w.size(); i++)
    {
      uint64_t x = w[i];
      while (x)
      {
        int b = __builtin_ctzll(x);
        f(i * 64 + b);
        x &= x - 1;
      }
    }
  }
};

struct Matcher
{
  const bytes& B;
  MatchFlags f;
  size_t n;
  std::unordered_map<uint64_t, Bits> memo;
  Matcher(const bytes& b, MatchFlags fl) : B(b), f(fl), n(b.size()) {}

  bool char_ok(const Node& nd, unsigned char c) const
  {
    switch (nd.k)
    {
    case Node::LIT:
      return f.nocase ? fold(c) == fold(nd.val) : c == nd.val;
    case Node::ANY:
      return f.dotall || c != 0x0a;
    case Node::MASK:
      return ((c & nd.mask) == nd.val) != nd.neg;
    case Node::CLASS:
    {
      bool in = nd.cls[c];
      if (f.nocase)
        in = in || nd.cls[other_case(c)];
      return in != nd.cls_neg;
    }
    default:
      return false;
    }
  }

  bool word_at(long p) const  // is the character starting at byte p a word character
  {
    if (p < 0)
      return false;
    if (f.wide)
      return (size_t) p + 2 <= n && B[p + 1] == 0 && is_word_byte(B[p]);
    return (size_t) p < n && is_word_byte(B[p]);
  }

  const Bits& ends(const Node& nd, size_t p)
  {
    uint64_t key = ((uint64_t) nd.id << 32) | p;
    auto it = memo.find(key);
    if (it != memo.end())
      return it->second;
    Bits r(n);
    size_t cs = f.wide ? 2 : 1;
    switch (nd.k)
    {
    case Node::LIT:
    case Node::ANY:
    case Node::MASK:
    case Node::CLASS:
      if (p + cs <= n && char_ok(nd, B[p]) && (!f.wide || B[p + 1] == 0))
        r.set(p + cs);
      break;
    case Node::EMPTY:
      r.set(p);
      break;
    case Node::BOL:
      if (p == 0)
        r.set(p);
      break;
    case Node::EOL:
      if (p == n)
        r.set(p);
      break;
    case Node::WB:
    case Node::NWB:
    {
      bool b = word_at((long) p - (long) cs) != word_at((long) p);
      if (b == (nd.k == Node::WB))
        r.set(p);
      break;
    }
    case Node::JUMP:
    {
      // lo..hi arbitrary characters; in a regexp ('.{n,m}') each must satisfy '.'
      size_t q = p;
      int cnt = 0;
      for (;;)
      {
        if (cnt >= nd.lo)
          r.set(q);
        if (nd.hi >= 0 && cnt >= nd.hi)
          break;
        if (q + cs > n)
          break;
        if (!(f.dotall || B[q] != 0x0a) || (f.wide && B[q + 1] != 0))
          break;
        q += cs;
        cnt++;
      }
      break;
    }
    case Node::CONCAT:
    {
      Bits cur(n);
      cur.set(p);
      for (auto& c : nd.ch)
      {
        Bits nx(n);
        cur.each([&](size_t q) { nx.or_in(ends(c, q)); });
        cur = nx;
        if (!cur.any())
          break;
      }
      r = cur;
      break;
    }
    case Node::ALT:
      for (auto& c : nd.ch) r.or_in(ends(c, p));
      break;
    case Node::REPEAT:
    {
      Bits cur(n);
      cur.set(p);
      Bits seen(n);
      if (nd.lo == 0)
        seen.set(p);
      for (int k = 1; nd.hi < 0 || k <= nd.hi; k++)
      {
        Bits nx(n);
        cur.each([&](size_t q) { nx.or_in(ends(nd.ch[0], q)); });
        if (!nx.any())
          break;
        bool added = false;
        if (k >= nd.lo)
          added = seen.or_in(nx);
        if (k >= nd.lo && !added)
          break;
        cur = nx;
      }
      r = seen;
      break;
    }
    }
    return memo.emplace(key, std::move(r)).first->second;
  }
};

// lengths (>= minlen) the pattern can match starting at every offset
static std::map<size_t, std::set<int>> model_pattern_matches(const Node& root, const bytes& B,
                                                             MatchFlags f, int minlen = 1)
{
  std::map<size_t, std::set<int>> L;
  Matcher m(B, f);
  for (size_t o = 0; o <= B.size(); o++)
  {
    const Bits& e = m.ends(root, o);
    e.each([&](size_t q) {
      if ((int) (q - o) >= minlen)
        L[o].insert((int) (q - o));
    });
  }
  return L;
}

// ----------------------------------------------------------------- printers
static std::string re_byte(unsigned char c)
{
  if (isalnum(c))
    return std::string(1, (char) c);
  return strf("\\x%02x", c);
}

static std::string print_re(const Node& n, bool top = true)
{
  switch (n.k)
  {
  case Node::LIT:
    return re_byte(n.val);
  case Node::ANY:
    return ".";
  case Node::CLASS:
    return n.text;
  case Node::EMPTY:
    return "";
  case Node::BOL:
    return "^";
  case Node::EOL:
    return "$";
  case Node::WB:
    return "\\b";
  case Node::NWB:
    return "\\B";
  case Node::CONCAT:
  {
    std::string s;
    for (auto& c : n.ch) s += c.k == Node::ALT ? "(" + print_re(c, false) + ")" : print_re(c, false);
    return s;
  }
  case Node::ALT:
  {
    std::string s;
    for (size_t i = 0; i < n.ch.size(); i++)
    {
      if (i)
        s += "|";
      s += print_re(n.ch[i], false);
    }
    return s;
  }
  case Node::JUMP:
  case Node::REPEAT:
  {
    std::string s;
    if (n.k == Node::JUMP)
      s = ".";
    else
    {
      const Node& c = n.ch[0];
      bool single = c.k == Node::LIT || c.k == Node::ANY || c.k == Node::CLASS;
      s = single ? print_re(c, false) : "(" + print_re(c, false) + ")";
    }
    switch (n.style)
    {
    case 0:
      s += "*";
      break;
    case 1:
      s += "+";
      break;
    case 2:
      s += "?";
      break;
    case 3:
      s += strf("{%d}", n.lo);
      break;
    case 4:
      s += strf("{%d,}", n.lo);
      break;
    case 5:
      s += strf("{,%d}", n.hi);
      break;
    default:
      s += strf("{%d,%d}", n.lo, n.hi);
    }
    if (!n.greedy)
      s += "?";
    return s;
  }
  default:
    return "";
  }
}

static std::string print_hex(const Node& n)
{
  switch (n.k)
  {
  case Node::LIT:
    return strf("%02X", n.val);
  case Node::ANY:
    return "??";
  case Node::MASK:
  {
    std::string s = n.neg ? "~" : "";
    if (n.mask == 0xff)
      return s + strf("%02X", n.val);
    if (n.mask == 0xf0)
      return s + strf("%X?", n.val >> 4);
    return s + strf("?%X", n.val & 0xf);
  }
  case Node::JUMP:
    if (n.hi < 0)
      return n.lo == 0 && n.style ? "[-]" : strf("[%d-]", n.lo);
    if (n.lo == n.hi && n.style)
      return strf("[%d]", n.lo);
    return strf("[%d-%d]", n.lo, n.hi);
  case Node::CONCAT:
  {
    std::string s;
    for (size_t i = 0; i < n.ch.size(); i++) s += (i ? " " : "") + print_hex(n.ch[i]);
    return s;
  }
  case Node::ALT:
  {
    std::string s = "( ";
    for (size_t i = 0; i < n.ch.size(); i++) s += (i ? " | " : "") + print_hex(n.ch[i]);
    return s + " )";
  }
  default:
    return "";
  }
}

// --------------------------------------------------------- sampling from an AST
// a byte string the node matches (in the character domain: caller widens)
static void sample_node(Src& s, const Node& n, MatchFlags f, const bytes& alphabet, bytes& out,
                        int jump_mode = -1)
{
  switch (n.k)
  {
  case Node::LIT:
    out += (char) ((f.nocase && s.coin(40)) ? other_case(n.val) : n.val);
    break;
  case Node::ANY:
    out += alphabet[s.range(0, alphabet.size() - 1)];
    break;
  case Node::MASK:
  {
    // prefer bytes related to the mask: same masked part, random rest
    for (int tries = 0; tries < 8; tries++)
    {
      unsigned char c = (unsigned char) ((n.val & n.mask) | (s.byte() & ~n.mask));
      if (n.neg)
        c = (unsigned char) (c ^ (1 << s.range(0, 7)));
      if ((((c & n.mask) == n.val) != n.neg))
      {
        out += (char) c;
        return;
      }
    }
    out += (char) (n.neg ? ~n.val : n.val);
    break;
  }
  case Node::CLASS:
  {
    std::vector<unsigned char> mem;
    for (int c = 0; c < 256 && mem.size() < 24; c++)
    {
      bool in = n.cls[c];
      if (f.nocase)
        in = in || n.cls[other_case((unsigned char) c)];
      if (in != n.cls_neg && (mem.size() < 8 || memchr(alphabet.data(), c, alphabet.size())))
        mem.push_back((unsigned char) c);
    }
    if (mem.empty())
      out += alphabet[0];
    else
      out += (char) mem[s.range(0, mem.size() - 1)];
    break;
  }
  case Node::CONCAT:
    for (auto& c : n.ch) sample_node(s, c, f, alphabet, out, jump_mode);
    break;
  case Node::ALT:
    sample_node(s, n.ch[s.range(0, n.ch.size() - 1)], f, alphabet, out, jump_mode);
    break;
  case Node::REPEAT:
  {
    int hi = n.hi < 0 ? n.lo + 3 : std::min(n.hi, n.lo + 3);
    int cnt = (int) s.range(n.lo, hi);
    for (int i = 0; i < cnt; i++) sample_node(s, n.ch[0], f, alphabet, out, jump_mode);
    break;
  }
  case Node::JUMP:
  {
    // gap at min, max, min-1, max+1 or random inside
    int hi = n.hi < 0 ? n.lo + 40 : n.hi;
    int g;
    switch (s.weighted({30, 25, 15, 15, 15}))
    {
    case 0:
      g = n.lo;
      break;
    case 1:
      g = hi;
      break;
    case 2:
      g = (int) s.range(n.lo, hi);
      break;
    case 3:
      g = n.lo > 0 ? n.lo - 1 : n.lo;
      break;
    default:
      g = n.hi < 0 ? hi + (int) s.range(0, 300) : hi + 1;
    }
    for (int i = 0; i < g; i++) out += alphabet[s.range(0, alphabet.size() - 1)];
    break;
  }
  default:
    break;
  }
}

// maximum number of characters a node can consume (INT_MAX/2 for unbounded)
static long max_span(const Node& n)
{
  const long INF = 1 << 29;
  switch (n.k)
  {
  case Node::LIT:
  case Node::ANY:
  case Node::MASK:
  case Node::CLASS:
    return 1;
  case Node::JUMP:
    return n.hi < 0 ? INF : n.hi;
  case Node::CONCAT:
  {
    long t = 0;
    for (auto& c : n.ch) t = std::min(INF, t + max_span(c));
    return t;
  }
  case Node::ALT:
  {
    long t = 0;
    for (auto& c : n.ch) t = std::max(t, max_span(c));
    return t;
  }
  case Node::REPEAT:
  {
    long c = max_span(n.ch[0]);
    if (c == 0)
      return 0;
    return n.hi < 0 ? INF : std::min(INF, c * n.hi);
  }
  default:
    return 0;
  }
}

static long min_span(const Node& n)
{
  switch (n.k)
  {
  case Node::LIT:
  case Node::ANY:
  case Node::MASK:
  case Node::CLASS:
    return 1;
  case Node::JUMP:
    return n.lo;
  case Node::CONCAT:
  {
    long t = 0;
    for (auto& c : n.ch) t += min_span(c);
    return t;
  }
  case Node::ALT:
  {
    long t = 1 << 29;
    for (auto& c : n.ch) t = std::min(t, min_span(c));
    return t;
  }
  case Node::REPEAT:
    return min_span(n.ch[0]) * n.lo;
  default:
    return 0;
  }
}

static void collect_bytes(const Node& n, bytes& out)
{
  if (n.k == Node::LIT || n.k == Node::MASK)
    out += (char) n.val;
  for (auto& c : n.ch) collect_bytes(c, out);
}

// ----------------------------------------------------------- hex generator
static Node gen_hex_byte(Src& s, bool allow_wild = true)
{
  Node n;
  static const unsigned char pool[] = {0x00, 0x01, 0x41, 0x42, 0x61, 0x90, 0xcc, 0xff, 0x10, 0x20};
  unsigned char v = s.coin(70) ? pool[s.range(0, 9)] : s.byte();
  switch (s.weighted({60, allow_wild ? 8 : 0, 10, 10, 6, 3, 3}))
  {
  case 0:
    n.k = Node::LIT;
    n.val = v;
    break;
  case 1:
    n.k = Node::ANY;
    break;
  case 2:
    n.k = Node::MASK;
    n.mask = 0xf0;
    n.val = v & 0xf0;
    break;
  case 3:
    n.k = Node::MASK;
    n.mask = 0x0f;
    n.val = v & 0x0f;
    break;
  case 4:
    n.k = Node::MASK;
    n.mask = 0xff;
    n.val = v;
    n.neg = true;
    break;
  case 5:
    n.k = Node::MASK;
    n.mask = 0xf0;
    n.val = v & 0xf0;
    n.neg = true;
    break;
  default:
    n.k = Node::MASK;
    n.mask = 0x0f;
    n.val = v & 0x0f;
    n.neg = true;
  }
  return n;
}

static Node gen_hex_jump(Src& s, bool inside_alt)
{
  static const int pts[] = {0, 1, 2, 3, 4, 7, 16, 100, 198, 199, 200, 201, 202, 255, 300, 1000};
  Node n;
  n.k = Node::JUMP;
  int form = (int) s.weighted({35, 40, inside_alt ? 0 : 15, inside_alt ? 0 : 10});
  int maxidx = inside_alt ? 10 : 15;
  auto pt = [&]() -> int { return s.coin(75) ? pts[s.range(0, maxidx)] : (int) s.range(0, inside_alt ? 200 : 1200); };
  if (form == 0)
  {  // [n]
    n.lo = n.hi = std::max(1, pt());
    n.style = 1;
  }
  else if (form == 1)
  {  // [n-m]
    int a = pt(), b = pt();
    n.lo = std::min(a, b);
    n.hi = std::max(a, b);
    n.style = 0;
  }
  else if (form == 2)
  {  // [n-]
    n.lo = pt();
    n.hi = -1;
    n.style = 0;
  }
  else
  {  // [-]
    n.lo = 0;
    n.hi = -1;
    n.style = 1;
  }
  return n;
}

static Node gen_hex_tokens(Src& s, int depth, bool inside_alt, int maxtok);

static Node gen_hex_token(Src& s, int depth, bool inside_alt)
{
  if (depth < 3 && s.coin(depth == 0 ? 15 : 10))
  {
    Node a;
    a.k = Node::ALT;
    size_t nalt = s.range(2, 4);
    for (size_t i = 0; i < nalt; i++) a.ch.push_back(gen_hex_tokens(s, depth + 1, true, 3));
    return a;
  }
  return gen_hex_byte(s);
}

static Node gen_hex_tokens(Src& s, int depth, bool inside_alt, int maxtok)
{
  Node c;
  c.k = Node::CONCAT;
  size_t ntok = s.range(1, maxtok);
  for (size_t i = 0; i < ntok; i++)
  {
    if (i > 0 && s.coin(inside_alt ? 12 : 22))
      c.ch.push_back(gen_hex_jump(s, inside_alt));
    c.ch.push_back(gen_hex_token(s, depth, inside_alt));
  }
  if (c.ch.size() == 1)
    return c.ch[0];
  return c;
}

// unchained pieces must stay inside the engine's 1024-byte verification window
static void clamp_hex_spans(Node& root)
{
  if (root.k != Node::CONCAT)
    return;
  for (int iter = 0; iter < 64; iter++)
  {
    long span = 0;
    Node* biggest = nullptr;
    bool shrunk = false;
    for (size_t i = 0; i <= root.ch.size(); i++)
    {
      bool boundary = i == root.ch.size() ||
                      (root.ch[i].k == Node::JUMP && (root.ch[i].hi < 0 || root.ch[i].lo > 200 || root.ch[i].hi > 200));
      if (boundary)
      {
        if (span > 900 && biggest)
        {
          biggest->hi = std::max(biggest->lo, biggest->hi / 2);
          if (biggest->lo > 100)
            biggest->lo = biggest->hi = biggest->hi / 2;
          shrunk = true;
        }
        span = 0;
        biggest = nullptr;
        continue;
      }
      Node& c = root.ch[i];
      span += max_span(c);
      if (c.k == Node::JUMP && (!biggest || c.hi > biggest->hi))
        biggest = &c;
    }
    if (!shrunk)
      break;
  }
}

static Node gen_hex_string(Src& s)
{
  Node root;
  int shape = (int) s.weighted({55, 25, 20});
  if (shape == 0)
    root = gen_hex_tokens(s, 0, false, 10);
  else if (shape == 1)
  {
    // chained: literal runs separated by large / unbounded jumps
    root.k = Node::CONCAT;
    size_t pieces = s.range(2, 4);
    for (size_t p = 0; p < pieces; p++)
    {
      if (p)
      {
        Node j;
        j.k = Node::JUMP;
        switch (s.weighted({30, 30, 20, 20}))
        {
        case 0:
          j.lo = 0;
          j.hi = -1;
          j.style = 1;
          break;
        case 1:
          j.lo = (int) s.range(0, 300);
          j.hi = j.lo + (int) s.range(150, 400);
          break;
        case 2:
          j.lo = (int) s.range(195, 205);
          j.hi = j.lo + (int) s.range(0, 5);
          break;
        default:
          j.lo = (int) s.range(0, 50);
          j.hi = -1;
        }
        if (j.hi >= 0 && j.lo <= 200 && j.hi <= 200)
          j.hi = 201;
        root.ch.push_back(j);
      }
      size_t run = s.range(1, 5);
      for (size_t i = 0; i < run; i++) root.ch.push_back(gen_hex_byte(s, i > 0));
    }
  }
  else
  {
    // long literal with a few masks (atom selection / trimming)
    root.k = Node::CONCAT;
    size_t len = s.range(2, 24);
    for (size_t i = 0; i < len; i++) root.ch.push_back(gen_hex_byte(s));
  }
  // the grammar requires the first and last element to be a token, which holds by
  // construction; normalise a CONCAT holding a single child
  if (root.k == Node::CONCAT && root.ch.size() == 1)
  {
    Node c = root.ch[0];
    root = c;
  }
  clamp_hex_spans(root);
  number_nodes(root);
  return root;
}

// ------------------------------------------------------- regexp generator
static const char RE_ALPHABET_RAW[] = {'a', 'b', 'c', 'A', 'B', '0', '1', '_', '-', ' ', '\n', '\0', (char) 0xff, 'z'};
static bytes re_alphabet() { return bytes(RE_ALPHABET_RAW, sizeof RE_ALPHABET_RAW); }

static Node mk_lit(unsigned char c)
{
  Node n;
  n.k = Node::LIT;
  n.val = c;
  return n;
}

static Node gen_re_class(Src& s)
{
  Node n;
  n.k = Node::CLASS;
  int form = (int) s.weighted({50, 9, 8, 8, 9, 8, 8});
  auto set_word = [&](std::bitset<256>& b, bool inv) { for (int c = 0; c < 256; c++) if (is_word_byte(c) != inv) b.set(c); };
  auto set_space = [&](std::bitset<256>& b, bool inv) { for (int c = 0; c < 256; c++) if (is_space_byte(c) != inv) b.set(c); };
  auto set_digit = [&](std::bitset<256>& b, bool inv) { for (int c = 0; c < 256; c++) if ((c >= '0' && c <= '9') != inv) b.set(c); };
  switch (form)
  {
  case 1:
    set_word(n.cls, false);
    n.text = "\\w";
    return n;
  case 2:
    set_word(n.cls, true);
    n.text = "\\W";
    return n;
  case 3:
    set_space(n.cls, false);
    n.text = "\\s";
    return n;
  case 4:
    set_space(n.cls, true);
    n.text = "\\S";
    return n;
  case 5:
    set_digit(n.cls, false);
    n.text = "\\d";
    return n;
  case 6:
    set_digit(n.cls, true);
    n.text = "\\D";
    return n;
  }
  n.cls_neg = s.coin(30);
  n.text = n.cls_neg ? "[^" : "[";
  size_t items = s.range(1, 4);
  bytes al = re_alphabet();
  for (size_t i = 0; i < items; i++)
  {
    switch (s.weighted({45, 30, 7, 6, 6, 6}))
    {
    case 0:
    {
      unsigned char c = (unsigned char) al[s.range(0, al.size() - 1)];
      n.cls.set(c);
      n.text += strf("\\x%02x", c);
      break;
    }
    case 1:
    {
      static const unsigned char ends[][2] = {{'a', 'c'}, {'a', 'z'}, {'A', 'B'}, {'0', '1'}, {'0', '9'}, {0x00, 0x20}, {0x80, 0xff}, {'A', 'z'}, {'b', 'b'}};
      size_t r = s.range(0, 8);
      for (int c = ends[r][0]; c <= ends[r][1]; c++) n.cls.set(c);
      n.text += strf("\\x%02x-\\x%02x", ends[r][0], ends[r][1]);
      break;
    }
    case 2:
      set_word(n.cls, false);
      n.text += "\\w";
      break;
    case 3:
      set_digit(n.cls, false);
      n.text += "\\d";
      break;
    case 4:
      set_space(n.cls, false);
      n.text += "\\s";
      break;
    default:
      set_word(n.cls, true);
      n.text += "\\W";
    }
  }
  n.text += "]";
  return n;
}

struct ReGenCtx
{
  int in_repeat = 0;  // zero-width assertions are not generated inside repeat bodies:
                      // /(^)+?a/ or /(\\b)*?a/ make the scan spin forever (recorded
                      // under C15); excluded here by construction so the search goes on
  bool lazy = false;
  int budget = 14;
  bool allow_big_jump = true;
};

static Node gen_re_node(Src& s, ReGenCtx& cx, int depth);

static Node gen_re_concat(Src& s, ReGenCtx& cx, int depth, size_t maxitems)
{
  Node c;
  c.k = Node::CONCAT;
  size_t items = s.range(1, maxitems);
  for (size_t i = 0; i < items && cx.budget > 0; i++) c.ch.push_back(gen_re_node(s, cx, depth));
  if (c.ch.empty())
    c.ch.push_back(mk_lit('a'));
  if (c.ch.size() == 1 && c.ch[0].k != Node::ALT)
    return c.ch[0];
  return c;
}

static void set_repeat(Src& s, ReGenCtx& cx, Node& r)
{
  r.greedy = !cx.lazy;
  r.style = (int) s.weighted({20, 20, 20, 12, 8, 8, 12});
  switch (r.style)
  {
  case 0:
    r.lo = 0;
    r.hi = -1;
    break;
  case 1:
    r.lo = 1;
    r.hi = -1;
    break;
  case 2:
    r.lo = 0;
    r.hi = 1;
    break;
  case 3:
    r.lo = r.hi = (int) s.range(0, 6);
    break;
  case 4:
    r.lo = (int) s.range(0, 6);
    r.hi = -1;
    break;
  case 5:
    r.lo = 0;
    r.hi = (int) s.range(0, 6);
    break;
  default:
    r.lo = (int) s.range(0, 6);
    r.hi = (int) s.range(r.lo, 6);
  }
}

static Node gen_re_node(Src& s, ReGenCtx& cx, int depth)
{
  cx.budget--;
  bytes al = re_alphabet();
  int za = cx.in_repeat ? 0 : 1;
  int kind = (int) s.weighted({34, 8, 12, depth < 3 ? 14 : 0, depth < 3 ? 22 : 8, 4 * za, 3 * za, 3 * za});
  switch (kind)
  {
  case 0:
  {  // literal run (atom material)
    Node c;
    c.k = Node::CONCAT;
    size_t len = s.range(1, 5);
    for (size_t i = 0; i < len; i++) c.ch.push_back(mk_lit((unsigned char) al[s.range(0, 8)]));
    if (len == 1)
      return c.ch[0];
    return c;
  }
  case 1:
  {
    Node n;
    n.k = Node::ANY;
    return n;
  }
  case 2:
    return gen_re_class(s);
  case 3:
  {  // group with alternation
    Node a;
    a.k = Node::ALT;
    size_t nalt = s.range(2, 3);
    for (size_t i = 0; i < nalt; i++) a.ch.push_back(gen_re_concat(s, cx, depth + 1, 3));
    if (s.coin(15))
    {
      Node e;
      e.k = Node::EMPTY;
      a.ch.push_back(e);  // trailing empty alternative: (a|b|)
    }
    return a;
  }
  case 4:
  {  // repeat
    Node r;
    r.k = Node::REPEAT;
    set_repeat(s, cx, r);
    int inner = (int) s.weighted({40, 15, 20, depth < 3 ? 25 : 0});
    if (inner == 0)
      r.ch.push_back(mk_lit((unsigned char) al[s.range(0, 8)]));
    else if (inner == 1)
    {
      if (r.style <= 1)
      {  // '.*' and '.+' are generic repeats of ANY
        Node any;
        any.k = Node::ANY;
        r.ch.push_back(any);
        return r;
      }
      // '.?' and '.{n,m}' are the engine's RANGE_ANY node
      Node j;
      j.k = Node::JUMP;
      j.greedy = r.greedy;
      j.style = r.style;
      j.lo = r.lo;
      j.hi = r.hi;
      if (r.style >= 3 && cx.allow_big_jump && s.coin(12))
      {  // large '.{n,m}': reaches regexp chaining when lazy
        j.style = 6;
        j.lo = (int) s.range(0, 250);
        j.hi = j.lo + (int) s.range(0, 300);
      }
      return j;
    }
    else if (inner == 2)
      r.ch.push_back(gen_re_class(s));
    else
    {
      cx.in_repeat++;
      r.ch.push_back(gen_re_concat(s, cx, depth + 1, 3));
      cx.in_repeat--;
    }
    return r;
  }
  case 5:
  {
    Node n;
    n.k = s.coin(50) ? Node::WB : Node::NWB;
    return n;
  }
  case 6:
  {
    Node n;
    n.k = Node::BOL;
    return n;
  }
  default:
  {
    Node n;
    n.k = Node::EOL;
    return n;
  }
  }
}

static Node gen_regexp(Src& s, bool lazy)
{
  ReGenCtx cx;
  cx.lazy = lazy;
  cx.budget = (int) s.range(2, 14);
  Node root;
  if (s.coin(12))
  {
    root.k = Node::ALT;
    size_t nalt = s.range(2, 3);
    for (size_t i = 0; i < nalt; i++) root.ch.push_back(gen_re_concat(s, cx, 1, 4));
  }
  else
    root = gen_re_concat(s, cx, 0, 5);
  number_nodes(root);
  return root;
}

static bool re_has_quant_or_alt(const Node& n)
{
  if (n.k == Node::REPEAT || n.k == Node::JUMP || n.k == Node::ALT)
    return true;
  for (auto& c : n.ch)
    if (re_has_quant_or_alt(c))
      return true;
  return false;
}
static bool re_has_kind(const Node& n, Node::K k)
{
  if (n.k == k)
    return true;
  for (auto& c : n.ch)
    if (re_has_kind(c, k))
      return true;
  return false;
}
