// C12 - shortcuts and compile-time evaluation never change a verdict.
#include "rulesetgen.hpp"

const char* PROP_ID = "C12";
void prop_init() { ys_set_arena_initial_size(262144); }

// equal-valued constant expression for v (kept far from 64-bit overflow)
static Expr const_expr(Src& s, int64_t v, int depth = 0)
{
  auto bin = [](const char* op, Expr a, Expr b) {
    Expr e;
    e.k = Expr::ARITH;
    e.ty = TI;
    e.name = op;
    e.ch = {a, b};
    return e;
  };
  auto un = [](Expr::K k, Expr a) {
    Expr e;
    e.k = k;
    e.ty = TI;
    e.ch = {a};
    return e;
  };
  auto sub = [&](int64_t x) { return depth < 2 && s.coin(30) ? const_expr(s, x, depth + 1) : mk_int(x, x >= 0 ? (int) s.weighted({60, 25, 15}) : 0); };
  int64_t k = (int64_t) s.range(1, 9);
  switch (s.range(0, 13))
  {
  case 0:
    return bin("+", sub(v - k), mk_int(k));
  case 1:
    return bin("-", sub(v + k), mk_int(k));
  case 2:
    return bin("\\", bin("*", sub(v), mk_int(k)), mk_int(k));
  case 3:
    return bin("|", sub(v), mk_int(0));
  case 4:
    return bin("&", sub(v), un(Expr::NEG, mk_int(1)));
  case 5:
  {
    int64_t m = (int64_t) s.range(0, 0xffff);
    return bin("^", bin("^", sub(v), mk_int(m, 1)), mk_int(m, 1));
  }
  case 6:
    return un(Expr::BITNOT, un(Expr::BITNOT, sub(v)));
  case 7:
    return un(Expr::NEG, un(Expr::NEG, sub(v)));
  case 8:
    return bin(">>", bin("<<", sub(v), mk_int(k)), mk_int(k));
  case 9:
    return bin("+", sub(v), bin("%", mk_int(k * 3), mk_int(k)));
  case 10:
  {
    if (v < 0)  // truncating division: (v*k + r) \ k == v only for v >= 0
      return bin("+", sub(v - k), mk_int(k));
    int64_t r = (int64_t) s.range(0, k - 1);
    return bin("\\", bin("+", bin("*", sub(v), mk_int(k)), mk_int(r)), mk_int(k));
  }
  case 11:
    return bin(">>", sub(v * 2), mk_int(1));
  case 12:
    return bin("%", sub(v), mk_int(v + k + 1000000));
  default:
    return mk_int(v, v >= 0 ? (int) s.range(1, 2) : 0);
  }
}

struct Rewrite
{
  int mode;  // 0 constant expression, 1 external
  std::vector<std::pair<std::string, int64_t>> exts;
  int replaced = 0, shortcut_positions = 0;
};

static void rewrite(Src& s, Expr& e, Rewrite& rw, bool shortcut_ctx = false)
{
  if (e.k == Expr::INT_LIT)
  {
    // stay inside the small, non-negative literals the base generator produces
    if (e.ival >= 0 && e.ival < (1LL << 32) && s.coin(shortcut_ctx ? 85 : 45))
    {
      int64_t v = e.ival;
      if (rw.mode == 0)
        e = const_expr(s, v);
      else
      {
        // the external holds v, or -v / ~v behind the matching unary operator, or v - k next to `+ k`:
        // an operator applied to a run-time operand is still a run-time value for every shortcut
        int form = (int) s.weighted({55, 20, 10, 15});
        int64_t k = (int64_t) s.range(1, 9);
        int64_t held = form == 0 ? v : form == 1 ? -v : form == 2 ? ~v : v - k;
        std::string nm = strf("e%zu", rw.exts.size());
        rw.exts.push_back({nm, held});
        Expr x;
        x.k = Expr::EXT;
        x.ty = TI;
        x.name = nm;
        if (form == 0)
          e = x;
        else if (form == 1 || form == 2)
        {
          Expr u;
          u.k = form == 1 ? Expr::NEG : Expr::BITNOT;
          u.ty = TI;
          u.ch = {x};
          e = u;
        }
        else
        {
          Expr b;
          b.k = Expr::ARITH;
          b.ty = TI;
          b.name = "+";
          b.ch = {x, mk_int(k)};
          e = b;
        }
      }
      rw.replaced++;
      if (shortcut_ctx)
        rw.shortcut_positions++;
    }
    return;
  }
  bool sc = e.k == Expr::FOUND_AT || e.k == Expr::FOUND_IN || e.k == Expr::COUNT_IN ||
            (e.k == Expr::OF && e.of_form != 0);
  for (size_t i = 0; i < e.ch.size(); i++)
  {
    // children 1.. of FOR_RANGE are its bounds; child 0 is the body
    bool c = sc || (e.k == Expr::FOR_RANGE && i > 0) || (e.k == Expr::OFFSET) || (e.k == Expr::LENGTH) ||
             (e.k == Expr::READ);
    rewrite(s, e.ch[i], rw, c);
  }
  if (e.q == 3)
    for (auto& q : e.qe) rewrite(s, q, rw, true);
}

static std::string rule_with(const GRule& base, const std::string& name, const std::string& cond)
{
  GRule r = base;
  r.name = name;
  std::string t = r.text();
  size_t p = t.rfind(" condition: ");
  return t.substr(0, p) + " condition: " + cond + " }\n";
}

static std::vector<uint8_t> gen_atom_table(Src& s, const GRule& r)
{
  // entries for the <= 4-byte windows of the strings' literal bytes with random
  // qualities, so that the chosen atom moves around; sorted as the API requires
  std::set<std::string> atoms;
  for (auto& st : r.strs)
  {
    bytes lit;
    if (st.kind == 0)
    {
      lit = st.t.pat;
      if (st.t.wide)
      {
        bytes w = to_wide(lit);
        for (size_t i = 0; i + 4 <= w.size(); i++) atoms.insert(w.substr(i, 4));
      }
    }
    else
      collect_bytes(st.pat, lit);
    for (size_t i = 0; i + 4 <= lit.size(); i++) atoms.insert(lit.substr(i, 4));
    for (size_t i = 0; i < lit.size(); i++)
      for (size_t l = 1; l < 4 && i + l <= lit.size(); l++) atoms.insert(lit.substr(i, l) + bytes(4 - l, '\0'));
  }
  std::vector<uint8_t> t;
  for (auto& a : atoms)
  {
    for (int i = 0; i < 4; i++) t.push_back((uint8_t) a[i]);
    t.push_back((uint8_t) (s.coin(30) ? s.range(0, 20) : s.range(0, 255)));
  }
  return t;
}

static const char* SIG_XOR_RANGE_ATOM = "C12:atom-table:ascii+wide+xor(a-b)-string:occurrence-with-key-outside-the-range-found-or-not-depending-on-the-atom";
static bool fixed_length(const GStr& g)
{
  if (g.kind == 0)
    return !g.t.is_b64() && !(g.t.wide && g.t.eff_ascii());
  return min_span(g.pat) == max_span(g.pat) && !(g.re_wide && g.re_ascii) && g.kind == 1;
}

std::string run_case(Src& s, CaseInfo& ci)
{
  GSet gs;
  gs.exts = gset_exts();
  gs.pool.push_back(gen_pattern(s).substr(0, 5));
  if (gs.pool[0].size() < 2)
    gs.pool[0] += "ab";
  GRule base;
  base.name = "r0";
  size_t nstr = s.range(1, 3);
  static const char* IDS[] = {"$_s1", "$_t1", "$_s2"};
  for (size_t i = 0; i < nstr; i++) base.strs.push_back(gen_gstr(s, gs, IDS[i]));
  if (s.coin(30))
  {
    // a hex string whose literal runs are separated by single wildcards: every 4-byte window of it is a
    // candidate atom, most of them with a wildcard inside or at an end - the atom quality table decides
    // which one is taken, and the match must not depend on it
    GStr h;
    h.kind = 1;
    h.id = base.strs[0].id;
    Node cat;
    cat.k = Node::CONCAT;
    size_t nruns = s.range(2, 4);
    for (size_t r = 0; r < nruns; r++)
    {
      size_t len = s.range(1, 4);
      for (size_t k = 0; k < len; k++)
      {
        Node b;
        b.k = Node::LIT;
        b.val = (uint8_t) gs.pool[0][(r + k) % gs.pool[0].size()] + (uint8_t) (r * 16 + k);
        cat.ch.push_back(b);
      }
      if (r + 1 < nruns)
      {
        Node any;
        any.k = Node::ANY;
        cat.ch.push_back(any);
      }
    }
    number_nodes(cat);
    h.pat = cat;
    base.strs[0] = h;
  }
  GenCtx g;
  for (auto& st : base.strs) g.str_ids.push_back(st.id);
  g.budget = (int) s.range(3, 18);
  g.allow_undef = s.coin(50);
  if (s.coin(40))
  {
    // shortcut-focused shape: the same string referenced in several ways (at a
    // constant, bare, counted, in a range ...) joined by and / or in any order -
    // the uses that set and clear the fixed-offset / single-match shortcuts
    auto lit = [&]() { return gen_int_lit(s); };
    auto piece = [&]() {
      Expr e;
      e.ty = TB;
      e.sidx = (int) s.range(0, base.strs.size() - 1);
      switch (s.weighted({30, 30, 12, 10, 10, 8}))
      {
      case 0:
        e.k = Expr::FOUND;
        break;
      case 1:
        e.k = Expr::FOUND_AT;
        e.ch = {lit()};
        break;
      case 2:
      {
        e.k = Expr::FOUND_IN;
        Expr a = lit(), b = lit();
        if (a.ival > b.ival)
          std::swap(a, b);
        e.ch = {a, b};
        break;
      }
      case 3:
      {
        Expr c;
        c.k = Expr::COUNT;
        c.ty = TI;
        c.sidx = e.sidx;
        e.k = Expr::CMP;
        e.name = s.coin(50) ? ">=" : "==";
        e.ch = {c, mk_int((int64_t) s.range(0, 3))};
        e.sidx = -1;
        break;
      }
      case 4:
      {
        Expr c;
        c.k = Expr::OFFSET;
        c.ty = TI;
        c.sidx = e.sidx;
        if (s.coin(50))
          c.ch = {mk_int((int64_t) s.range(1, 3))};
        e.k = Expr::CMP;
        e.name = "==";
        e.ch = {c, lit()};
        e.sidx = -1;
        break;
      }
      default:
        e.k = Expr::OF;
        e.q = (int) s.range(0, 2);
        e.sidx = -1;
        for (size_t i = 0; i < base.strs.size(); i++) e.set.push_back((int) i);
        e.set_text = "them";
        e.of_form = (int) s.weighted({50, 0, 50});
        if (e.of_form == 2)
          e.ch = {lit()};
      }
      if (s.coin(12))
      {
        Expr n;
        n.k = Expr::NOT;
        n.ty = TB;
        n.ch = {e};
        return n;
      }
      return e;
    };
    size_t np = s.range(2, 4);
    Expr acc = piece();
    for (size_t i = 1; i < np; i++)
    {
      Expr j;
      j.k = s.coin(55) ? Expr::OR : Expr::AND;
      j.ty = TB;
      j.ch = {acc, piece()};
      acc = j;
    }
    base.cond = acc;
  }
  else
    base.cond = gen_bool(s, g, (int) s.range(1, 4));
  gs.rules.push_back(base);
  std::vector<std::string> ids = g.str_ids;
  PrintCtx pc{&ids};
  std::string C = print_expr(base.cond, pc);

  Expr cexpr = base.cond, eexpr = base.cond, rexpr = base.cond;
  Rewrite rc{0}, re{1}, rr{1};
  rewrite(s, cexpr, rc);
  rewrite(s, eexpr, re);
  rewrite(s, rexpr, rr);
  for (auto& e : rr.exts) e.first = "q" + e.first.substr(1);
  std::function<void(Expr&)> ren = [&](Expr& e) {
    if (e.k == Expr::EXT && e.name[0] == 'e')
      e.name = "q" + e.name.substr(1);
    for (auto& c : e.ch) ren(c);
    for (auto& c : e.qe) ren(c);
  };
  ren(rexpr);
  int redefine_level = (int) s.range(0, 1);  // 0 rules, 1 scanner

  std::vector<bytes> bufs;
  size_t nbuf = s.range(2, 4);
  std::vector<int64_t> targets;
  collect_offset_targets(base.cond, targets);
  for (size_t i = 0; i < nbuf; i++)
  {
    bytes B = gen_set_buffer(s, gs, 600);
    // string instances exactly at the offsets the condition names (and, through the
    // generic part of the buffer, usually somewhere before them as well)
    if (!targets.empty() && s.coin(65))
    {
      size_t n = s.range(1, 3);
      for (size_t k = 0; k < n; k++)
      {
        int64_t t = targets[s.range(0, targets.size() - 1)] + (int64_t) s.weighted({80, 10, 10}) % 3 - (s.coin(10) ? 1 : 0);
        if (t < 0)
          t = 0;
        place_at(B, (size_t) t, sample_gstr(s, base.strs[s.range(0, base.strs.size() - 1)]));
      }
      if (s.coin(40))
        place_at(B, 0, sample_gstr(s, base.strs[s.range(0, base.strs.size() - 1)]));
    }
    bufs.push_back(B);
  }
  std::vector<uint8_t> table = gen_atom_table(s, base);

  std::string src_base = base.text();
  std::string src_twins = src_base;
  src_twins += rule_with(base, "t_or", "(" + C + ") or filesize < 0");
  src_twins += rule_with(base, "t_and", "(" + C + ") and filesize >= 0");
  src_twins += rule_with(base, "t_ext", print_expr(eexpr, pc));
  std::string src_const = rule_with(base, "t_const", print_expr(cexpr, pc));
  std::string src_redef = rule_with(base, "t_redef", print_expr(rexpr, pc));

  ci.desc = src_twins + src_const + src_redef;
  for (auto& e : re.exts) ci.desc += strf("ext %s=%lld\n", e.first.c_str(), (long long) e.second);
  for (auto& e : rr.exts)
    ci.desc += strf("ext %s: compiled as %lld, redefined to %lld at %s level\n", e.first.c_str(), (long long) e.second + 13,
                    (long long) e.second, redefine_level ? "scanner" : "rules");
  for (auto& b : bufs) ci.desc += "buffer[" + std::to_string(b.size()) + "] \"" + esc(b) + "\"\n";
  ci.desc += strf("atom table entries: %zu\n", table.size() / 5);
  ci.hash = hstr(ci.desc);
  checkpoint(s, ci.desc);

  std::vector<ExtDef> exts = gs.exts;
  for (auto& e : re.exts)
  {
    ExtDef d;
    d.type = YS_EXT_INT;
    d.id = e.first;
    d.i = e.second;
    exts.push_back(d);
  }
  // base + or/and/external twins
  Rules R;
  CompileResult cr = compile_units({{"default", src_twins, YS_ADD_STRING}}, R, exts);
  if (cr.errors || cr.rc)
  {
    if (compile_discardable(cr))
    {
      ci.discard = strf("constant/limit-rejected(%d)", cr.first_error);
      return "";
    }
    return "generated rule rejected: " + cr.diag;
  }
  std::vector<bool> verdict;
  std::vector<Trace> traces;
  int ntrue = 0, nfalse = 0;
  for (size_t bi = 0; bi < bufs.size(); bi++)
  {
    Trace t0 = scan_simple(R.r, bufs[bi], 0, true);
    Trace t1 = scan_simple(R.r, bufs[bi], 1 /*SCAN_FLAGS_FAST_MODE*/, false);
    ci.sub_evals += 2;
    if (t0.rc == 46 || t1.rc == 46)
    {
      ci.discard = "too-many-fibers";
      return "";
    }
    if (t0.rc || t1.rc)
      return strf("scan returned %d / %d", t0.rc, t1.rc);
    const MsgRec* b = t0.rule("default:r0");
    if (!b)
      return "r0 not reported";
    bool v = b->kind == 'M';
    verdict.push_back(v);
    traces.push_back(t0);
    (v ? ntrue : nfalse)++;
    for (const char* tw : {"t_or", "t_and", "t_ext"})
    {
      const MsgRec* m = t0.rule(std::string("default:") + tw);
      if (!m || (m->kind == 'M') != v)
        return strf("buffer %zu: r0 is %s but its twin %s is not", bi, v ? "true" : "false", tw);
    }
    for (const char* tw : {"r0", "t_or", "t_and", "t_ext"})
    {
      const MsgRec* m = t1.rule(std::string("default:") + tw);
      if (!m || (m->kind == 'M') != v)
        return strf("buffer %zu: fast mode changes the verdict of %s (normal mode: %s)", bi, tw, v ? "true" : "false");
    }
  }
  // constant-expression twin: compile outcome and verdict must agree
  {
    Rules K;
    CompileResult ck = compile_units({{"default", src_const, YS_ADD_STRING}}, K, gs.exts);
    if (ck.errors || ck.rc)
      return "rule with an integer literal rewritten as an equal-valued constant expression is rejected although the "
             "original compiles: " + ck.diag;
    for (size_t bi = 0; bi < bufs.size(); bi++)
    {
      Trace t = scan_simple(K.r, bufs[bi], 0, false);
      const MsgRec* m = t.rule("default:t_const");
      if (!m || (m->kind == 'M') != verdict[bi])
        return strf("buffer %zu: r0 is %s but the constant-expression twin is not", bi, verdict[bi] ? "true" : "false");
      ci.sub_evals++;
    }
  }
  // redefinition twin: compiled with other values, redefined before the scan
  if (!rr.exts.empty())
  {
    std::vector<ExtDef> ex2 = gs.exts;
    for (auto& e : rr.exts)
    {
      ExtDef d;
      d.type = YS_EXT_INT;
      d.id = e.first;
      d.i = e.second + 13;
      ex2.push_back(d);
    }
    Rules D;
    CompileResult cd = compile_units({{"default", src_redef, YS_ADD_STRING}}, D, ex2);
    if (cd.errors || cd.rc)
      return "rule using external variables (compiled with other values) is rejected: " + cd.diag;
    ys_scanner* sc = nullptr;
    if (redefine_level == 0)
    {
      for (auto& e : rr.exts)
        if (ys_rules_define(D.r, YS_EXT_INT, e.first.c_str(), e.second, 0, nullptr) != 0)
          return "rules-level redefinition failed";
    }
    else
    {
      int err = 0;
      sc = ys_scanner_new(D.r, &err);
      if (!sc)
        return "scanner creation failed";
      for (auto& e : rr.exts)
        if (ys_scanner_define(sc, YS_EXT_INT, e.first.c_str(), e.second, 0, nullptr) != 0)
        {
          ys_scanner_free(sc);
          return "scanner-level redefinition failed";
        }
    }
    for (size_t bi = 0; bi < bufs.size(); bi++)
    {
      ys_scan_opts o;
      memset(&o, 0, sizeof o);
      char* t = nullptr;
      ys_scan(D.r, sc, (const uint8_t*) bufs[bi].data(), bufs[bi].size(), &o, &t);
      Trace tr = parse_trace(t);
      ys_free(t);
      const MsgRec* m = tr.rule("default:t_redef");
      if (!m || (m->kind == 'M') != verdict[bi])
      {
        if (sc)
          ys_scanner_free(sc);
        return strf("buffer %zu: r0 is %s but the twin whose integer operands are external variables redefined at %s level is not",
                    bi, verdict[bi] ? "true" : "false", redefine_level ? "scanner" : "rules");
      }
      ci.sub_evals++;
    }
    if (sc)
      ys_scanner_free(sc);
  }
  // atom quality table: same verdicts, same match offsets (and lengths for fixed-length strings)
  {
    Rules A;
    CompileResult ca = compile_units({{"default", src_base, YS_ADD_STRING}}, A, gs.exts, {}, &table);
    if (ca.errors || ca.rc)
      return "rule rejected when an atom quality table is supplied: " + ca.diag;
    for (size_t bi = 0; bi < bufs.size(); bi++)
    {
      Trace t = scan_simple(A.r, bufs[bi], 0, true);
      const MsgRec* m = t.rule("default:r0");
      const MsgRec* b = traces[bi].rule("default:r0");
      if (!m)
        return strf("buffer %zu: r0 not reported with the atom quality table", bi);
      bool known_diff = false;
      for (size_t si = 0; si < b->strings.size() && si < m->strings.size(); si++)
      {
        const auto& x = b->strings[si].m;
        const auto& y = m->strings[si].m;
        bool same = x.size() == y.size();
        for (size_t k = 0; same && k < x.size(); k++)
          same = x[k].off == y[k].off && (!fixed_length(base.strs[si]) || x[k].len == y[k].len);
        if (!same)
        {
          // known finding shared with C01: an `ascii wide xor(a-b)` string can be reported with a key
          // outside [a,b] (the verifier derives the key from the data); whether such a spurious
          // occurrence is found depends on the atom that led there
          const GStr& gstr = base.strs[si];
          if (gstr.kind == 0 && gstr.t.has_xor && gstr.t.wide && gstr.t.eff_ascii() && is_known(SIG_XOR_RANGE_ATOM))
          {
            auto only_bad = [&](const std::vector<MatchRec>& p, const std::vector<MatchRec>& q) {
              for (auto& g : p)
              {
                bool in_q = false;
                for (auto& h : q) in_q = in_q || (h.off == g.off && h.len == g.len);
                if (!in_q && g.key >= gstr.t.xlo && g.key <= gstr.t.xhi)
                  return false;  // a legitimate occurrence is missing on one side: not this finding
              }
              return true;
            };
            if (only_bad(x, y) && only_bad(y, x))
            {
              ci.known.push_back(SIG_XOR_RANGE_ATOM);
              known_diff = true;
              continue;
            }
          }
          std::string lx, ly;
          for (auto& g : x) lx += strf(" %lld+%d/key%d", (long long) g.off, g.len, g.key);
          for (auto& g : y) ly += strf(" %lld+%d/key%d", (long long) g.off, g.len, g.key);
          return strf("buffer %zu: atom quality table changes the matches of %s (%zu vs %zu matches): default table:%s; generated table:%s", bi,
                      b->strings[si].ident.c_str(), x.size(), y.size(), lx.c_str(), ly.c_str());
        }
      }
      if ((m->kind == 'M') != verdict[bi] && !known_diff)
        return strf("buffer %zu: atom quality table changes the verdict of r0", bi);
      ci.sub_evals++;
    }
  }
  ci.nontrivial = (rc.replaced + re.replaced + rr.replaced) > 0 && ntrue > 0 && nfalse > 0;
  if (rc.replaced)
    ci.classes.push_back("literal->constant-expression");
  if (re.replaced)
    ci.classes.push_back("literal->external");
  if (rr.replaced)
    ci.classes.push_back(redefine_level ? "external-redefined-at-scanner" : "external-redefined-at-rules");
  if (rc.shortcut_positions + re.shortcut_positions + rr.shortcut_positions)
    ci.classes.push_back("rewrite-in-shortcut-position(at/in/of/index/bounds)");
  if (ntrue && nfalse)
    ci.classes.push_back("verdict-varies-over-buffers");
  return "";
}

std::vector<FixedCase> fixed_cases() { return {}; }
