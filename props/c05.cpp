// C05 - a rule's result does not depend on what else is compiled with it.
#include "rulesetgen.hpp"

const char* PROP_ID = "C05";
void prop_init() { ys_set_arena_initial_size(262144); }

static void closure(const GSet& gs, int idx, std::set<int>& out)
{
  if (!out.insert(idx).second)
    return;
  for (int r : gs.rules[idx].refs) closure(gs, r, out);
  // every global rule of the namespace stays (adding/removing one is outside the property)
  for (size_t q = 0; q < gs.rules.size(); q++)
    if (gs.rules[q].global && gs.rules[q].ns == gs.rules[idx].ns)
      closure(gs, (int) q, out);
}

static std::vector<Trace> scan_all(ys_rules* r, const std::vector<bytes>& bufs)
{
  std::vector<Trace> v;
  for (auto& b : bufs) v.push_back(scan_simple(r, b));
  return v;
}

static std::string compare(const GSet& gs, const std::vector<int>& subset, const std::vector<Trace>& whole,
                           const std::vector<Trace>& part, const char* what)
{
  for (size_t bi = 0; bi < whole.size(); bi++)
  {
    if (whole[bi].rc != part[bi].rc)
      return strf("%s: scan of buffer %zu returns %d instead of %d", what, bi, part[bi].rc, whole[bi].rc);
    for (int idx : subset)
    {
      const GRule& r = gs.rules[idx];
      if (r.priv)
        continue;
      std::string full = r.ns + ":" + r.name;
      std::string a = rule_record(whole[bi], full), b = rule_record(part[bi], full);
      if (a != b)
        return strf("%s: rule %s on buffer %zu: with all rules %s, in the variant %s", what, full.c_str(), bi,
                    a.substr(0, 300).c_str(), b.substr(0, 300).c_str());
    }
  }
  return "";
}

std::string run_case(Src& s, CaseInfo& ci)
{
  GenOpts o;
  o.max_rules = 10;
  // mostly relocation-free compilations (as with the stock 1 MiB buffers); sometimes buffers so small
  // that the shared automaton tables move while rules are being added (C19 owns that axis, here it
  // only varies the company a rule is compiled in)
  static const uint32_t ARENA[] = {262144, 8192, 1024};
  ys_set_arena_initial_size(ARENA[s.weighted({70, 18, 12})]);
  GSet gs = gen_ruleset(s, o);
  size_t n = gs.rules.size();
  std::vector<bytes> bufs;
  size_t nbuf = s.range(1, 3);
  for (size_t i = 0; i < nbuf; i++) bufs.push_back(gen_set_buffer(s, gs));

  // choices for the variants
  int target = (int) s.range(0, n - 1);
  // (b) a permutation that keeps referenced rules before their users
  std::vector<int> perm;
  {
    std::vector<bool> placed(n, false);
    for (size_t step = 0; step < n; step++)
    {
      std::vector<int> ready;
      for (size_t i = 0; i < n; i++)
      {
        if (placed[i])
          continue;
        bool ok = true;
        for (int r : gs.rules[i].refs) ok = ok && placed[r];
        if (ok)
          ready.push_back((int) i);
      }
      int pick = ready[s.range(0, ready.size() - 1)];
      placed[pick] = true;
      perm.push_back(pick);
    }
  }
  size_t prefix_len = s.range(1, n);
  // (e) distribution of each namespace's text over pieces / add methods / includes
  std::vector<int> cut_after;   // 1 = new piece after rule i
  std::vector<int> piece_how;
  std::vector<int> piece_inc;   // 0 inline, 1 served through an include, 2 nested include
  for (size_t i = 0; i < n; i++)
  {
    cut_after.push_back(s.coin(45));
    piece_how.push_back((int) s.range(0, 3));
    piece_inc.push_back((int) s.weighted({60, 25, 15}));
  }

  std::vector<int> all;
  for (size_t i = 0; i < n; i++) all.push_back((int) i);
  std::string src;
  for (auto& u : units_for(gs, all)) src += "// namespace " + u.ns + "\n" + u.text;
  ci.desc = src;
  for (auto& b : bufs) ci.desc += "buffer[" + std::to_string(b.size()) + "] \"" + esc(b) + "\"\n";
  ci.desc += strf("target r%d, prefix %zu, perm", target, prefix_len);
  for (int p : perm) ci.desc += strf(" %d", p);
  ci.desc += "\n";
  ci.hash = hstr(ci.desc);
  checkpoint(s, ci.desc);

  Rules whole;
  CompileResult cr = compile_units(units_for(gs, all), whole, gs.exts);
  if (cr.errors || cr.rc)
  {
    if (compile_discardable(cr))
    {
      ci.discard = strf("constant/limit-rejected(%d)", cr.first_error);
      return "";
    }
    return "generated rule set rejected: " + cr.diag;
  }
  std::vector<Trace> tw = scan_all(whole.r, bufs);
  for (auto& t : tw)
    if (t.rc == 46)
    {
      ci.discard = "too-many-fibers";
      return "";
    }
  ci.sub_evals = 1;

  // (a) closure of the target alone
  {
    std::set<int> cl;
    closure(gs, target, cl);
    std::vector<int> sub(cl.begin(), cl.end());
    Rules part;
    CompileResult c2 = compile_units(units_for(gs, sub), part, gs.exts);
    if (c2.errors || c2.rc)
      return "closure of r" + std::to_string(target) + " does not compile alone although the whole set does: " + c2.diag;
    std::string m = compare(gs, {target}, tw, scan_all(part.r, bufs), "rule compiled with only the rules it references");
    if (!m.empty())
      return m;
    ci.sub_evals++;
  }
  // (b) permutation
  {
    Rules part;
    CompileResult c2 = compile_units(units_for(gs, perm), part, gs.exts);
    if (c2.errors || c2.rc)
      return "permuted rule set does not compile: " + c2.diag;
    std::string m = compare(gs, all, tw, scan_all(part.r, bufs), "independent rules permuted");
    if (!m.empty())
      return m;
    ci.sub_evals++;
  }
  // (d) prefix + all global rules: adding the remaining rules must not change the earlier ones
  {
    std::set<int> keep;
    for (size_t i = 0; i < prefix_len; i++) closure(gs, (int) i, keep);
    std::vector<int> sub(keep.begin(), keep.end());
    Rules part;
    CompileResult c2 = compile_units(units_for(gs, sub), part, gs.exts);
    if (c2.errors || c2.rc)
      return "prefix of the rule set does not compile: " + c2.diag;
    std::string m = compare(gs, sub, tw, scan_all(part.r, bufs), "rules compiled before the others were added");
    if (!m.empty())
      return m;
    ci.sub_evals++;
  }
  // (e) same text cut into several add_* calls and (nested) includes
  int npieces = 0, nincludes = 0;
  {
    std::vector<SourceUnit> units;
    std::vector<std::pair<std::string, std::string>> incs;
    std::map<std::string, std::set<std::string>> imported;
    for (size_t i = 0; i < n; i++)
    {
      const GRule& r = gs.rules[i];
      std::string imp;
      for (auto& m : r.imports)
        if (imported[r.ns].insert(m).second)
          imp += "import \"" + m + "\"\n";
      bool newpiece = units.empty() || units.back().ns != r.ns || (i > 0 && cut_after[i - 1]);
      std::string text = imp + rule_source(r);
      if (piece_inc[i] > 0)
      {
        std::string nm = strf("inc%zu.yar", incs.size());
        if (piece_inc[i] == 2)
        {
          std::string inner = strf("inc%zu_inner.yar", incs.size());
          incs.push_back({inner, text});
          incs.push_back({nm, "include \"" + inner + "\"\n"});
        }
        else
          incs.push_back({nm, text});
        text = "include \"" + nm + "\"\n";
        nincludes++;
      }
      if (newpiece)
      {
        units.push_back({r.ns, "", piece_how[i]});
        npieces++;
      }
      units.back().text += text;
    }
    Rules part;
    CompileResult c2 = compile_units(units, part, gs.exts, incs);
    if (c2.errors || c2.rc)
      return "rule text distributed over several sources / includes does not compile: " + c2.diag;
    std::string m = compare(gs, all, tw, scan_all(part.r, bufs), "namespace text distributed over several sources and includes");
    if (!m.empty())
      return m;
    ci.sub_evals++;
  }

  // non-triviality: some string of the target shares material with another rule and matched
  bool matched = false, shares = false;
  const GRule& tr = gs.rules[target];
  for (auto& t : tw)
  {
    const MsgRec* m = t.rule(tr.ns + ":" + tr.name);
    if (m)
      for (auto& st : m->strings) matched = matched || !st.m.empty();
  }
  size_t nstrings = 0;
  for (auto& r : gs.rules) nstrings += r.strs.size();
  shares = nstrings > tr.strs.size() && !tr.strs.empty();
  ci.nontrivial = matched && shares && n >= 2;
  if (n >= 2)
    ci.classes.push_back("multi-rule");
  std::set<std::string> nss;
  for (auto& r : gs.rules) nss.insert(r.ns);
  if (nss.size() > 1)
    ci.classes.push_back("multi-namespace");
  if (matched)
    ci.classes.push_back("target-has-matches");
  if (nincludes)
    ci.classes.push_back("includes");
  if (npieces > (int) nss.size())
    ci.classes.push_back("namespace-split-over-sources");
  for (auto& r : gs.rules)
  {
    if (r.global)
    {
      ci.classes.push_back("has-global-rule");
      break;
    }
  }
  for (auto& r : gs.rules)
    if (!r.refs.empty())
    {
      ci.classes.push_back("has-rule-reference");
      break;
    }
  for (auto& r : gs.rules)
    if (!r.imports.empty())
    {
      ci.classes.push_back("has-import");
      break;
    }
  return "";
}

std::vector<FixedCase> fixed_cases() { return {}; }
