// C03 - regular-expression strings and `matches` agree with regex semantics.
#include "remodel.hpp"

const char* PROP_ID = "C03";
void prop_init() { ys_set_arena_initial_size(65536); }

struct ReCase
{
  Node root;
  bool lazy = false;
  bool fi = false, fs = false;  // /i /s
  bool nocase = false, ascii = false, wide = false, fullword = false, priv = false;
  bool matches_mode = false;
  std::vector<bytes> bufs;  // scanned buffers, or operands of `matches`
  bool eff_ascii() const { return ascii || !wide; }
};

static const char* SIG_ZEROLEN = "C03:string-regexp:zero-length-match-reported-for-nullable-expression";
static const char* SIG_NULL_LOOP = "C03:counted-repeat-loop(min>=2):body-re-entered-at-a-split-already-executed-in-the-same-step:match-missed";
static const char* SIG_NULL_LOOP_ASSERT = "C03:counted-repeat-loop(min>=2):body-re-entered-at-a-split-already-executed-in-the-same-step:lazy-anchored:assert-in-yr_re_exec";
static const char* SIG_RE_CHAIN = "C03:regexp-split-at-lazy-dot-range-over-200:gap-ignores-newline/wide-units/piece-lengths";
static const char* SIG_EOL_EMPTY = "C03:matches:empty-match-at-end-of-non-empty-operand-not-tried";

// Known finding: e{n,m} is compiled to prolog + counted loop + epilog (re.c,
// table in _yr_re_emit).  _yr_re_fiber_sync() keeps one list of "splits already
// executed" per synchronisation step and kills a thread that arrives at a listed
// split (the guard against (a*)* style infinite loops).  When the counted loop must
// run >= 2 times, the forced pass goes REPEAT_END -> loop head inside ONE step, so
// a thread is killed although it is making progress whenever the loop head can be
// reached at a split that the same step has already executed:
//   (a) e can match the empty string: /x(a*){4}b/ misses "xaab", /(a?){5}/ misses "a";
//   (b) e ends in an unbounded repeat whose back-edge leads (without consuming) to a
//       split that also sits at the entry of e: /((a|b)+){4}/ misses "aaaa" (the
//       '+' loops back to the alternation's split, then REPEAT_END re-enters e at
//       the very same split), /(x?(a|b)+){4}/ likewise.
// One root cause, one signature; the predicate below is exactly (a) or (b).
static bool has_unbounded_repeat(const Node& n)
{
  if (n.k == Node::REPEAT && n.hi < 0)
    return true;
  for (auto& c : n.ch)
    if (has_unbounded_repeat(c))
      return true;
  return false;
}
static bool re_nullable(const Node& n) { return min_span(n) == 0; }
// split instructions reachable from the entry of n without consuming input
static void head_splits(const Node& n, std::set<int>& out)
{
  switch (n.k)
  {
  case Node::CONCAT:
    for (auto& c : n.ch)
    {
      head_splits(c, out);
      if (!re_nullable(c))
        break;
    }
    break;
  case Node::ALT:
    out.insert(n.id);
    for (auto& c : n.ch) head_splits(c, out);
    break;
  case Node::REPEAT:
    if (n.style == 0 || (n.style != 1 && n.lo == 0))  // '*', '?', {0,m}, {,m}: a split / optional entry comes first
      out.insert(n.id);
    head_splits(n.ch[0], out);
    break;
  default:
    break;
  }
}
// split instructions reachable without consuming input from the exits of n through loops inside n
static void tail_backedge_splits(const Node& n, std::set<int>& out)
{
  switch (n.k)
  {
  case Node::CONCAT:
    for (size_t i = n.ch.size(); i-- > 0;)
    {
      tail_backedge_splits(n.ch[i], out);
      if (!re_nullable(n.ch[i]))
        break;
    }
    break;
  case Node::ALT:
    for (auto& c : n.ch) tail_backedge_splits(c, out);
    break;
  case Node::REPEAT:
    tail_backedge_splits(n.ch[0], out);
    if (n.hi < 0 || n.hi > 1)
    {
      out.insert(n.id);            // the repeat's own split / jump
      head_splits(n.ch[0], out);   // the back-edge lands on the body's entry
    }
    break;
  default:
    break;
  }
}
static bool has_nullable_loop(const Node& n)
{
  if (n.k == Node::REPEAT && n.style >= 3)
  {
    int start = n.lo, end = n.hi < 0 ? 32767 : n.hi;
    bool prolog = start > 0, split = end > start;
    bool repeat = end > start + 1 || end > 2;
    int loop_min = start - (prolog ? 1 : 0) - (split ? 0 : 1);
    if (repeat && loop_min >= 2)
    {
      if (re_nullable(n.ch[0]))
        return true;
      std::set<int> h, t;
      head_splits(n.ch[0], h);
      tail_backedge_splits(n.ch[0], t);
      for (int id : h)
        if (t.count(id))
          return true;
    }
  }
  for (auto& c : n.ch)
    if (has_nullable_loop(c))
      return true;
  return false;
}

// Known finding: a lazy '.{n,m}?' with a bound above 200 (or unbounded '.{n,}?')
// at the top level of a regexp is cut out and the regexp becomes a chain of
// pieces joined by a byte gap, like a hex jump.  The gap then matches newlines
// without /s, counts bytes instead of 2-byte units for `wide`, and the pieces
// keep one length each (the C02 finding) - and a piece that can match the empty
// string is never found at the end of the data.
static bool has_re_chain_point(const Node& root)
{
  if (root.k != Node::CONCAT)
    return false;
  for (size_t i = 1; i + 1 < root.ch.size(); i++)
  {
    const Node& j = root.ch[i];
    // '.{n,m}' and '.?' are RANGE_ANY nodes in the engine whichever way the
    // generator built them (JUMP, or REPEAT over a lone ANY)
    bool dot_range = j.k == Node::JUMP || (j.k == Node::REPEAT && j.style >= 2 && j.ch[0].k == Node::ANY);
    if (dot_range && !j.greedy && (j.hi < 0 || j.lo > 200 || j.hi > 200))
      return true;
  }
  return false;
}

static bytes gen_re_buffer(Src& s, const ReCase& c, int& planted, int& nearmiss)
{
  bytes al = re_alphabet();
  MatchFlags f;
  f.nocase = c.fi || c.nocase;
  f.dotall = c.fs;
  bytes B;
  size_t nseg = s.range(1, 6);
  size_t cap = c.matches_mode ? 80 : 1000;
  for (size_t i = 0; i < nseg && B.size() < cap; i++)
  {
    int what = (int) s.weighted({30, 40, 15, 15});
    bool wide_reading = c.wide && (!c.eff_ascii() || s.coin(50));
    if (what == 0)
    {
      size_t n = s.range(0, 12);
      bytes fl;
      for (size_t k = 0; k < n; k++) fl += al[s.range(0, al.size() - 1)];
      B += (wide_reading && s.coin(50)) ? to_wide(fl) : fl;
    }
    else if (what == 3)
    {
      // delimiter: alnum or not, ascii or wide
      unsigned char d = s.coin(50) ? (unsigned char) al[s.range(0, 6)] : (unsigned char) ' ';
      B += (char) d;
      if (wide_reading)
        B += '\0';
    }
    else
    {
      bytes smp;
      sample_node(s, c.root, f, al, smp);
      if (what == 2 && !smp.empty())
      {
        size_t pos = s.range(0, smp.size() - 1);
        smp[pos] = al[s.range(0, al.size() - 1)];
        nearmiss++;
      }
      else
        planted++;
      B += wide_reading ? to_wide(smp) : smp;
    }
  }
  if (B.size() > cap)
    B.resize(cap);
  return B;
}

static std::string rule_text(const ReCase& c, size_t operand_idx)
{
  std::string re = "/" + print_re(c.root) + "/";
  if (c.fi)
    re += "i";
  if (c.fs)
    re += "s";
  if (c.matches_mode)
    return strf("rule r%zu { condition: %s matches %s }\n", operand_idx, text_literal(c.bufs[operand_idx]).c_str(),
                re.c_str());
  std::string mods;
  if (c.ascii)
    mods += " ascii";
  if (c.wide)
    mods += " wide";
  if (c.nocase)
    mods += " nocase";
  if (c.fullword)
    mods += " fullword";
  if (c.priv)
    mods += " private";
  return "rule r { strings: $r = " + re + mods + " condition: $r }\n";
}

static std::string check_case(const ReCase& c, CaseInfo& ci, const Src* srcp, int planted, int nearmiss)
{
  std::string src;
  if (c.matches_mode)
    for (size_t i = 0; i < c.bufs.size(); i++) src += rule_text(c, i);
  else
    src = rule_text(c, 0);
  ci.desc = src;
  if (!c.matches_mode)
    for (auto& b : c.bufs) ci.desc += "buffer[" + std::to_string(b.size()) + "] \"" + esc(b) + "\"\n";
  ci.hash = hstr(ci.desc);
  if (srcp)
    checkpoint(*srcp, ci.desc);

  Rules rules;
  CompileResult cr = compile_simple(src, rules);
  if (cr.errors != 0 || cr.rc != 0)
  {
    if (cr.first_error == 45 || cr.first_error == 49)
    {
      ci.discard = "regexp-limit(compile)";
      return "";
    }
    return "regular expression in the supported syntax rejected by the compiler: " + cr.diag;
  }
  bool nullable_used = false;
  bool any_expected = false;

  if (c.matches_mode)
  {
    MatchFlags f;
    f.nocase = c.fi;
    f.dotall = c.fs;
    Trace tr = scan_simple(rules.r, bytes("x"));
    ci.sub_evals += c.bufs.size();
    if (tr.rc == 46)
    {
      ci.discard = "too-many-fibers";
      return "";
    }
    if (tr.rc != 0)
      return strf("scan returned %d", tr.rc);
    for (size_t i = 0; i < c.bufs.size(); i++)
    {
      const bytes& op = c.bufs[i];
      Matcher m(op, f);
      bool expect = false, expect_before_end = false;
      for (size_t o = 0; o <= op.size(); o++)
        if (m.ends(c.root, o).any())
        {
          expect = true;
          if (o < op.size() || op.empty())
            expect_before_end = true;
        }
      if (expect)
        any_expected = true;
      const MsgRec* r = tr.rule("default:r" + std::to_string(i));
      if (!r)
        return "rule not reported";
      bool got = r->kind == 'M';
      if (got == expect)
        continue;
      if (!got && expect && !expect_before_end && is_known(SIG_EOL_EMPTY))
      {
        ci.known.push_back(SIG_EOL_EMPTY);
        continue;
      }
      if (!got && expect && has_nullable_loop(c.root) && is_known(SIG_NULL_LOOP))
      {
        ci.known.push_back(SIG_NULL_LOOP);
        continue;
      }
      return strf("operand %zu: `matches` is %s but the expression %s somewhere in the operand", i,
                  got ? "true" : "false", expect ? "matches" : "matches nowhere");
    }
  }
  else
  {
    MatchFlags fa;
    fa.nocase = c.fi || c.nocase;
    fa.dotall = c.fs;
    MatchFlags fw = fa;
    fw.wide = true;
    for (size_t bi = 0; bi < c.bufs.size(); bi++)
    {
      const bytes& B = c.bufs[bi];
      Trace tr = scan_simple(rules.r, B);
      ci.sub_evals++;
      if (tr.rc == 46)
      {
        ci.discard = "too-many-fibers";
        return "";
      }
      if (tr.rc != 0)
        return strf("scan of buffer %zu returned %d", bi, tr.rc);
      // candidates per offset: (len, wide reading?)
      std::map<size_t, std::set<std::pair<int, bool>>> L;
      std::set<size_t> nullable_at;
      for (int w = 0; w < 2; w++)
      {
        if (w == 0 && !c.eff_ascii())
          continue;
        if (w == 1 && !c.wide)
          continue;
        Matcher m(B, w ? fw : fa);
        for (size_t o = 0; o <= B.size(); o++)
        {
          const Bits& e = m.ends(c.root, o);
          e.each([&](size_t q) {
            if (q > o)
              L[o].insert({(int) (q - o), w == 1});
            else
              nullable_at.insert(o);
          });
        }
      }
      std::set<size_t> must, may;
      std::map<size_t, std::set<int>> oklen;
      for (auto& kv : L)
      {
        bool all = true, some = false;
        for (auto& lw : kv.second)
        {
          bool ok = true;
          if (c.fullword)
          {
            Variant v;
            v.b.assign(B.data() + kv.first, lw.first);
            v.wide = lw.second;
            ok = fullword_ok(v, B, kv.first);
          }
          if (ok)
          {
            some = true;
            oklen[kv.first].insert(lw.first);
          }
          else
            all = false;
        }
        if (some)
          may.insert(kv.first);
        if (some && all)
          must.insert(kv.first);
      }
      if (!may.empty())
        any_expected = true;
      const MsgRec* r = tr.rule("default:r");
      if (!r || r->strings.size() != 1)
        return "rule r not reported with exactly one string";
      const auto& got = r->strings[0].m;
      for (size_t k = 1; k < got.size(); k++)
        if (got[k].off <= got[k - 1].off)
          return strf("buffer %zu: match list not strictly ascending at index %zu", bi, k);
      std::set<size_t> have;
      for (auto& g : got)
      {
        if (g.off < 0 || (size_t) g.off > B.size())
          return strf("buffer %zu: match reported at offset %lld outside the buffer", bi, (long long) g.off);
        have.insert((size_t) g.off);
        if (g.len == 0)
        {
          // zero-length report
          if (nullable_at.count((size_t) g.off) && is_known(SIG_ZEROLEN))
          {
            ci.known.push_back(SIG_ZEROLEN);
            nullable_used = true;
            continue;
          }
          return strf("buffer %zu: zero-length match reported at offset %lld (a string match must be a non-empty byte sequence)",
                      bi, (long long) g.off);
        }
        if ((!may.count((size_t) g.off) || !oklen[(size_t) g.off].count(g.len)) && has_re_chain_point(c.root) &&
            is_known(SIG_RE_CHAIN))
        {
          ci.known.push_back(SIG_RE_CHAIN);
          continue;
        }
        if (!may.count((size_t) g.off))
          return strf("buffer %zu: match reported at offset %lld (len %d) but the expression matches no non-empty sequence there%s",
                      bi, (long long) g.off, g.len, c.fullword ? " delimited as a full word" : "");
        if (!oklen[(size_t) g.off].count(g.len))
          return strf("buffer %zu: match at %lld reported with length %d, which the expression cannot match there (e.g. %d)",
                      bi, (long long) g.off, g.len, *oklen[(size_t) g.off].begin());
      }
      for (size_t o : must)
        if (!have.count(o))
        {
          if (has_nullable_loop(c.root) && is_known(SIG_NULL_LOOP))
          {
            ci.known.push_back(SIG_NULL_LOOP);
            continue;
          }
          if (has_re_chain_point(c.root) && is_known(SIG_RE_CHAIN))
          {
            ci.known.push_back(SIG_RE_CHAIN);
            continue;
          }
          // a nullable expression: the engine's candidate at o may be the empty
          // match, which `fullword` can reject although a longer one passes
          if (c.fullword && nullable_at.count(o) && is_known(SIG_ZEROLEN))
          {
            ci.known.push_back(SIG_ZEROLEN);
            continue;
          }
          return strf("buffer %zu: expression matches at offset %zu (length %d) but no match reported", bi, o,
                      *oklen[o].begin());
        }
      bool verdict = r->kind == 'M';
      if (verdict != !got.empty())
        return strf("buffer %zu: verdict %d inconsistent with %zu reported matches", bi, (int) verdict, got.size());
    }
  }
  (void) nullable_used;
  bool interesting = re_has_quant_or_alt(c.root);
  ci.nontrivial = any_expected && interesting;
  ci.classes.push_back(c.matches_mode ? "matches-operator" : "string");
  ci.classes.push_back(c.lazy ? "lazy" : "greedy");
  if (c.wide)
    ci.classes.push_back(c.eff_ascii() ? "ascii+wide" : "wide");
  if (c.fi || c.nocase)
    ci.classes.push_back("nocase");
  if (c.fs)
    ci.classes.push_back("dotall");
  if (c.fullword)
    ci.classes.push_back("fullword");
  if (re_has_kind(c.root, Node::BOL) || re_has_kind(c.root, Node::EOL))
    ci.classes.push_back("anchors");
  if (re_has_kind(c.root, Node::WB) || re_has_kind(c.root, Node::NWB))
    ci.classes.push_back("word-boundary");
  if (re_has_kind(c.root, Node::ALT))
    ci.classes.push_back("alternation");
  if (re_has_kind(c.root, Node::REPEAT))
    ci.classes.push_back("repeat");
  if (re_has_kind(c.root, Node::JUMP))
    ci.classes.push_back("dot-range");
  if (re_has_kind(c.root, Node::CLASS))
    ci.classes.push_back("class");
  if (any_expected)
    ci.classes.push_back("has-match");
  if (nearmiss)
    ci.classes.push_back("buf-near-miss");
  return "";
}

std::string run_case(Src& s, CaseInfo& ci)
{
  ReCase c;
  c.lazy = s.coin(35);
  c.root = gen_regexp(s, c.lazy);
  c.matches_mode = s.coin(25);
  c.fi = s.coin(25);
  c.fs = s.coin(30);
  if (!c.matches_mode)
  {
    c.nocase = s.coin(15);
    int aw = (int) s.weighted({55, 10, 20, 15});
    c.ascii = aw == 1 || aw == 3;
    c.wide = aw >= 2;
    c.fullword = s.coin(20);
    c.priv = s.coin(8);
  }
  if (has_nullable_loop(c.root) && is_known(SIG_NULL_LOOP))
  {
    // known finding (missed matches, and an assertion failure in yr_re_exec for
    // some lazy variants): excluded by construction so that the search goes on
    ci.discard = "excluded-known-finding:counted-loop-re-entered-at-executed-split";
    return "";
  }
  int planted = 0, nearmiss = 0;
  size_t nbuf = c.matches_mode ? s.range(1, 4) : s.range(1, 2);
  for (size_t i = 0; i < nbuf; i++) c.bufs.push_back(gen_re_buffer(s, c, planted, nearmiss));
  return check_case(c, ci, &s, planted, nearmiss);
}

static Node cat(std::initializer_list<Node> l)
{
  Node c;
  c.k = Node::CONCAT;
  c.ch = l;
  return c;
}
static Node rep(Node child, int lo, int hi, int style, bool greedy = true)
{
  Node r;
  r.k = Node::REPEAT;
  r.ch.push_back(child);
  r.lo = lo;
  r.hi = hi;
  r.style = style;
  r.greedy = greedy;
  return r;
}
static Node kind(Node::K k)
{
  Node n;
  n.k = k;
  return n;
}

std::vector<FixedCase> fixed_cases()
{
  std::vector<FixedCase> v;
  {  // known finding: /a*/ reports zero-length matches
    ReCase c;
    c.root = rep(mk_lit('a'), 0, -1, 0);
    number_nodes(c.root);
    c.bufs = {"xxaax"};
    v.push_back({"known-zero-length", [=](CaseInfo& ci) { return check_case(c, ci, nullptr, 1, 0); }});
  }
  {  // known finding: "abc" matches /$/
    ReCase c;
    c.root = kind(Node::EOL);
    number_nodes(c.root);
    c.matches_mode = true;
    c.bufs = {"abc", ""};
    v.push_back({"known-matches-eol", [=](CaseInfo& ci) { return check_case(c, ci, nullptr, 1, 0); }});
  }
  {  // known finding: /x(a*){4}b/ misses "xaab"
    ReCase c;
    Node star = rep(mk_lit('a'), 0, -1, 0);
    c.root = cat({mk_lit('x'), rep(star, 4, 4, 3), mk_lit('b')});
    number_nodes(c.root);
    c.bufs = {"xaab xb"};
    v.push_back({"known-nullable-loop", [=](CaseInfo& ci) { return check_case(c, ci, nullptr, 1, 0); }});
  }
  {  // known finding, crash variant: /^((ab)*?){5,}?/ aborts in yr_re_exec (assert(false))
    ReCase c;
    Node ab = cat({mk_lit('a'), mk_lit('b')});
    Node star = rep(ab, 0, -1, 0, false);
    c.lazy = true;
    c.root = cat({kind(Node::BOL), rep(star, 5, -1, 4, false)});
    number_nodes(c.root);
    c.bufs = {"ababababababx"};
    FixedCase fc{"known-nullable-loop-assert", [=](CaseInfo& ci) { return check_case(c, ci, nullptr, 1, 0); }};
    fc.crash_sig = SIG_NULL_LOOP_ASSERT;
    v.push_back(fc);
  }
  {  // fixed d6a1fdc: e? inside a repeat ((a?b)+, backward (.a?)+)
    ReCase c;
    Node opt = rep(mk_lit('a'), 0, 1, 2);
    c.root = cat({mk_lit('x'), mk_lit('y'), rep(cat({opt, mk_lit('b')}), 1, -1, 1), mk_lit('c'), mk_lit('c')});
    number_nodes(c.root);
    c.bufs = {"xybbcc xyabcc"};
    v.push_back({"fixed-optional-first-in-plus", [=](CaseInfo& ci) { return check_case(c, ci, nullptr, 1, 0); }});
    ReCase d;
    Node opt2 = rep(mk_lit('a'), 0, 1, 2);
    d.root = cat({mk_lit('x'), rep(cat({kind(Node::ANY), opt2}), 1, -1, 1), mk_lit('c'), mk_lit('c')});
    number_nodes(d.root);
    d.bufs = {"xa0cc"};
    v.push_back({"fixed-optional-last-in-plus-backward", [=](CaseInfo& ci) { return check_case(d, ci, nullptr, 1, 0); }});
  }
  {  // known finding: /..{0,}?a/ matches "a\na" although '.' must not match a newline
    ReCase c;
    Node j;
    j.k = Node::JUMP;
    j.lo = 0;
    j.hi = -1;
    j.style = 4;
    j.greedy = false;
    c.lazy = true;
    c.root = cat({kind(Node::ANY), j, mk_lit('a')});
    number_nodes(c.root);
    c.bufs = {bytes("aaaaa\na", 7)};
    v.push_back({"known-regexp-chain-gap", [=](CaseInfo& ci) { return check_case(c, ci, nullptr, 1, 0); }});
  }
  {  // fixed: (e{0})+ jumped to an unset code reference (out-of-bounds read / assert in yr_re_exec)
    ReCase c;
    Node z = rep(mk_lit('a'), 0, 0, 6, false);
    Node plus = rep(z, 1, -1, 1, false);
    c.lazy = true;
    c.root = cat({mk_lit('c'), plus, mk_lit('x'), mk_lit('A')});
    number_nodes(c.root);
    c.bufs = {"cxA c_AAA"};
    v.push_back({"fixed-empty-range-in-plus", [=](CaseInfo& ci) { return check_case(c, ci, nullptr, 1, 0); }});
  }
  {  // fixed: wide fullword regexp without backward code judged with ascii delimiters
    ReCase c;
    c.root = kind(Node::ANY);
    number_nodes(c.root);
    c.wide = c.fullword = true;
    c.bufs = {bytes("a\0a", 3)};
    v.push_back({"fixed-wide-fullword-no-backward-code", [=](CaseInfo& ci) { return check_case(c, ci, nullptr, 1, 0); }});
  }
  {
    ReCase c;
    c.root = cat({mk_lit('a'), rep(mk_lit('b'), 1, -1, 1), mk_lit('c')});
    number_nodes(c.root);
    c.bufs = {"xabbbc abc ac abbc"};
    v.push_back({"plain-plus", [=](CaseInfo& ci) { return check_case(c, ci, nullptr, 1, 0); }});
  }
  return v;
}
