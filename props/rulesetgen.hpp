// Rule-set generator shared by the differential / metamorphic properties
// (DESIGN.md 3.5): rules over text, hex and regexp strings that deliberately share
// material, conditions from the C04 grammar, namespaces, global/private
// modifiers, tags, metas, imports, externals; and buffers built from the
// strings' own instances.
#pragma once
#include "condmodel.hpp"
#include "remodel.hpp"

struct GStr
{
  int kind = 0;  // 0 text, 1 hex, 2 regexp
  TextStr t;
  Node pat;
  std::string re_mods;  // regexp: "/i", " wide" ...
  bool re_i = false, re_s = false, re_wide = false, re_ascii = false;
  std::string id;
  std::string decl() const
  {
    if (kind == 0)
      return print_text_string(t, id);
    if (kind == 1)
      return id + " = { " + print_hex(pat) + " }";
    return id + " = /" + print_re(pat) + "/" + std::string(re_i ? "i" : "") + (re_s ? "s" : "") +
           (re_ascii ? " ascii" : "") + (re_wide ? " wide" : "");
  }
};

struct GRule
{
  std::string ns = "default", name;
  bool global = false, priv = false;
  std::vector<std::string> tags;
  std::vector<std::string> metas;  // printed "k = v"
  std::vector<GStr> strs;
  Expr cond;
  std::string extra;             // module clause appended to the condition ("" if none)
  std::vector<std::string> imports;
  std::vector<int> refs;         // indices of earlier rules referenced by cond
  std::string text() const
  {
    std::vector<std::string> ids;
    for (auto& s : strs) ids.push_back(s.id);
    PrintCtx pc{&ids};
    std::string o;
    if (global)
      o += "global ";
    if (priv)
      o += "private ";
    o += "rule " + name;
    if (!tags.empty())
    {
      o += " :";
      for (auto& t : tags) o += " " + t;
    }
    o += " {";
    if (!metas.empty())
    {
      o += " meta:";
      for (auto& m : metas) o += " " + m;
    }
    if (!strs.empty())
    {
      o += " strings:";
      for (auto& s : strs) o += " " + s.decl();
    }
    o += " condition: " + print_expr(cond, pc);
    if (!extra.empty())
      o += " " + extra;
    return o + " }\n";
  }
};

struct GSet
{
  std::vector<GRule> rules;
  std::vector<bytes> pool;  // shared material
  std::vector<ExtDef> exts;
};

static void collect_refs(const Expr& e, std::set<std::string>& out)
{
  if (e.k == Expr::RULE_REF)
    out.insert(e.name);
  if (e.k == Expr::OF_RULES)
    for (auto& n : e.rnames) out.insert(n);
  for (auto& c : e.ch) collect_refs(c, out);
  for (auto& c : e.qe) collect_refs(c, out);
}

static std::vector<ExtDef> gset_exts()
{
  std::vector<ExtDef> v;
  ExtDef a;
  a.type = YS_EXT_INT;
  a.id = "xi";
  a.i = 7;
  v.push_back(a);
  ExtDef b;
  b.type = YS_EXT_FLOAT;
  b.id = "xf";
  b.f = 2.5;
  v.push_back(b);
  ExtDef c;
  c.type = YS_EXT_BOOL;
  c.id = "xb";
  c.i = 1;
  v.push_back(c);
  ExtDef d;
  d.type = YS_EXT_STR;
  d.id = "xs";
  d.s = "abc";
  v.push_back(d);
  return v;
}

static const char* MODULE_CLAUSES[][2] = {
    {"pe", "or pe.is_pe"},
    {"pe", "and (pe.number_of_sections >= 0 or true)"},
    {"elf", "or elf.type == elf.ET_EXEC"},
    {"math", "and math.entropy(0, filesize) >= 0.0"},
    {"math", "or math.mean(0, filesize) > 200.0"},
    {"hash", "and hash.md5(0, filesize) != \"00\""},
    {"hash", "or hash.crc32(0, filesize) == 0"},
    // digests of one range through several algorithms, spread over different rules: the per-scan digest
    // cache is shared by all rules of a scan, each value must still be its own algorithm's
    {"hash", "and hash.sha256(0, filesize) matches /^[0-9a-f]{64}$/"},
    {"hash", "and hash.sha1(0, filesize) matches /^[0-9a-f]{40}$/"},
    {"hash", "and hash.md5(0, filesize) matches /^[0-9a-f]{32}$/"},
    {"hash", "and hash.checksum32(0, filesize) >= 0"},
    {"string", "and string.length(\"abc\") == 3"},
    {"time", "and time.now() > 0"},
    {"tests", "and tests.constants.one == 1"},
    {"tests", "or tests.isum(1, 2) == 4"},
    {"console", "and console.log(\"x\")"},
    {"dotnet", "or dotnet.is_dotnet"},
    {"macho", "or macho.magic == 0"},
    {"dex", "or dex.header.file_size == 1"},
};

struct GenOpts
{
  int max_rules = 8;
  int max_ns = 3;
  bool modules = true;
  bool modifiers = true;  // global / private
  int cond_depth = 3;
  bool allow_console = true;
  bool rule_sets = true;  // `N of (w*)`, `any of (r1, q4)`: rule sets over earlier rules of the namespace
};

// set by properties whose buffers are large and sanitizer slow-down high (atom-less
// generated regexps then take minutes); the regexp engine is still exercised by
// their fixed rules
static bool g_gen_no_regexp = false;

static GStr gen_gstr(Src& s, GSet& gs, const std::string& id)
{
  GStr g;
  g.id = id;
  const bytes& mat = gs.pool[s.range(0, gs.pool.size() - 1)];
  g.kind = (int) s.weighted({50, 25, g_gen_no_regexp ? 0 : 25});
  if (g.kind == 0)
  {
    g.t = gen_text_string(s, true);
    // wrap shared material with a little private context
    int shape = (int) s.weighted({40, 20, 20, 20});
    bytes p = g.t.pat.substr(0, std::min<size_t>(g.t.pat.size(), 3));
    if (shape == 0)
      g.t.pat = mat;
    else if (shape == 1)
      g.t.pat = mat + p;
    else if (shape == 2)
      g.t.pat = p + mat;
    else
      g.t.pat = p + mat + p;
    if (g.t.is_b64() && g.t.pat.size() > 40)
      g.t.pat.resize(40);
  }
  else if (g.kind == 1)
  {
    Node c;
    c.k = Node::CONCAT;
    int shape = (int) s.weighted({40, 30, 30});
    if (shape >= 1)
      c.ch.push_back(gen_hex_byte(s, false));
    for (unsigned char ch : mat) c.ch.push_back(mk_lit(ch));
    if (shape == 2)
    {
      c.ch.push_back(gen_hex_jump(s, false));
      const bytes& m2 = gs.pool[s.range(0, gs.pool.size() - 1)];
      for (unsigned char ch : m2) c.ch.push_back(mk_lit(ch));
    }
    else if (s.coin(40))
      c.ch.push_back(gen_hex_byte(s, false));
    if (c.ch.size() == 1)
      c.ch.push_back(mk_lit(0x41));
    clamp_hex_spans(c);
    number_nodes(c);
    g.pat = c;
  }
  else
  {
    Node c;
    c.k = Node::CONCAT;
    int shape = (int) s.weighted({35, 25, 20, 20});
    bool lazy = s.coin(30);
    ReGenCtx cx;
    cx.lazy = lazy;
    cx.budget = 4;
    cx.allow_big_jump = false;
    if (shape == 1 || shape == 3)
      c.ch.push_back(gen_re_node(s, cx, 2));
    if (shape != 3 || s.coin(50))
      for (unsigned char ch : mat) c.ch.push_back(mk_lit(ch));
    if (shape == 2 || shape == 3)
      c.ch.push_back(gen_re_node(s, cx, 2));
    if (c.ch.empty())
      c.ch.push_back(mk_lit('a'));
    // a regexp that is a bare assertion / nullable expression is legal but its
    // zero-length matches are a known finding of C03: keep one literal in it
    if (min_span(c) == 0)
      c.ch.push_back(mk_lit(mat.empty() ? 'a' : (unsigned char) mat[0]));
    number_nodes(c);
    g.pat = c;
    g.re_i = s.coin(20);
    g.re_s = s.coin(20);
    int aw = (int) s.weighted({70, 10, 10, 10});
    g.re_ascii = aw == 1 || aw == 3;
    g.re_wide = aw >= 2;
  }
  return g;
}

static GSet gen_ruleset(Src& s, const GenOpts& o)
{
  GSet gs;
  gs.exts = gset_exts();
  // shared material: a few short byte strings, some overlapping each other
  size_t npool = s.range(1, 4);
  for (size_t i = 0; i < npool; i++)
  {
    bytes m;
    size_t len = s.range(2, 6);
    if (i > 0 && s.coin(40))
    {
      // overlap with an earlier item: shared prefix / suffix / infix
      const bytes& prev = gs.pool[s.range(0, gs.pool.size() - 1)];
      size_t cut = s.range(1, prev.size() - 1);
      m = s.coin(50) ? prev.substr(cut) : prev.substr(0, cut);
    }
    while (m.size() < len) m += (char) gen_pat_byte(s, (int) s.weighted({40, 15, 15, 10, 10, 10}));
    gs.pool.push_back(m);
  }
  size_t nrules = s.range(1, o.max_rules);
  size_t nns = s.range(1, o.max_ns);
  static const char* NS[] = {"default", "nsA", "nsB"};
  // namespaces and name families are drawn up front: a wildcard rule set `w*` may only be used where
  // no later rule of the namespace starts with `w` (the compiler rejects such a rule: "identifier
  // matches previously used wildcard rule set")
  static const char FAM[] = {'r', 'r', 'q', 'w'};
  std::vector<size_t> ns_of(nrules), fam_of(nrules);
  for (size_t r = 0; r < nrules; r++)
  {
    ns_of[r] = s.range(0, nns - 1);
    fam_of[r] = s.range(0, 3);
  }
  for (size_t r = 0; r < nrules; r++)
  {
    GRule gr;
    gr.ns = NS[ns_of[r]];
    gr.name = strf("%c%zu", FAM[fam_of[r]], r);
    if (o.modifiers)
    {
      gr.global = s.coin(12);
      gr.priv = s.coin(15);
    }
    size_t ntags = s.weighted({70, 20, 10});
    for (size_t i = 0; i < ntags; i++) gr.tags.push_back(strf("tag%zu", (size_t) s.range(0, 3) + i * 4));
    size_t nmeta = s.weighted({70, 20, 10});
    for (size_t i = 0; i < nmeta; i++)
    {
      int mk = (int) s.range(0, 2);
      if (mk == 0)
        gr.metas.push_back(strf("m%zu = %d", i, (int) s.range(0, 1000)));
      else if (mk == 1)
        gr.metas.push_back(strf("m%zu = \"v%d\"", i, (int) s.range(0, 9)));
      else
        gr.metas.push_back(strf("m%zu = %s", i, s.coin(50) ? "true" : "false"));
    }
    size_t nstr = s.weighted({10, 35, 30, 15, 10});
    static const char* IDS[] = {"$_s1", "$_t1", "$_s2", "$_t2"};
    for (size_t i = 0; i < nstr; i++) gr.strs.push_back(gen_gstr(s, gs, IDS[i]));
    GenCtx g;
    for (auto& st : gr.strs) g.str_ids.push_back(st.id);
    for (size_t q = 0; q < r; q++)
      if (gs.rules[q].ns == gr.ns)
        g.rule_ids.push_back(gs.rules[q].name);
    if (o.rule_sets)
    {
      for (char fam : {'r', 'q', 'w'})
      {
        if (fam == gr.name[0])
          continue;
        bool later = false;
        std::vector<std::string> members;
        for (size_t q = 0; q < nrules; q++)
          if (ns_of[q] == ns_of[r] && FAM[fam_of[q]] == fam)
          {
            if (q < r)
              members.push_back(gs.rules[q].name);
            else if (q > r)
              later = true;
          }
        if (!later && !members.empty())
          g.rule_sets.push_back({strf("(%c*)", fam), members});
      }
      if (g.rule_ids.size() >= 2)
      {
        // explicit enumeration, possibly mixed with a wildcard
        std::vector<std::string> m = {g.rule_ids[0], g.rule_ids[g.rule_ids.size() - 1]};
        g.rule_sets.push_back({"(" + m[0] + ", " + m[1] + ")", m});
      }
    }
    g.budget = (int) s.range(2, 14);
    gr.cond = gen_bool(s, g, (int) s.range(1, o.cond_depth));
    std::set<std::string> refs;
    collect_refs(gr.cond, refs);
    for (size_t q = 0; q < r; q++)
      if (gs.rules[q].ns == gr.ns && refs.count(gs.rules[q].name))
        gr.refs.push_back((int) q);
    if (o.modules && s.coin(25))
    {
      size_t nclauses = sizeof(MODULE_CLAUSES) / sizeof(MODULE_CLAUSES[0]);
      size_t mc = s.range(0, nclauses - 1);
      if (!o.allow_console && std::string(MODULE_CLAUSES[mc][0]) == "console")
        mc = 0;
      gr.imports.push_back(MODULE_CLAUSES[mc][0]);
      // the generated condition is wrapped so that the clause applies to all of it
      gr.extra = MODULE_CLAUSES[mc][1];
    }
    gs.rules.push_back(gr);
  }
  return gs;
}

// the source text of one rule with the parenthesised condition when a module
// clause is appended
static std::string rule_source(const GRule& r)
{
  if (r.extra.empty())
    return r.text();
  GRule c = r;
  std::vector<std::string> ids;
  for (auto& s : c.strs) ids.push_back(s.id);
  PrintCtx pc{&ids};
  std::string t = c.text();
  // re-print with parentheses around the generated part
  std::string cond = print_expr(c.cond, pc);
  size_t p = t.rfind(" condition: ");
  return t.substr(0, p) + " condition: (" + cond + ") " + c.extra + " }\n";
}

static std::string imports_text(const std::vector<const GRule*>& rules)
{
  std::set<std::string> mods;
  for (auto* r : rules)
    for (auto& m : r->imports) mods.insert(m);
  std::string o;
  for (auto& m : mods) o += "import \"" + m + "\"\n";
  return o;
}

// one instance of a generated string (may or may not match, that is the point)
static bytes sample_gstr(Src& s, const GStr& g)
{
  bytes al = re_alphabet();
  if (g.kind == 0)
  {
    bool spec;
    return gen_instance(s, g.t, &spec);
  }
  MatchFlags f;
  f.dotall = true;
  bytes out;
  if (g.kind == 1)
  {
    bytes alpha;
    collect_bytes(g.pat, alpha);
    alpha += '\0';
    sample_node(s, g.pat, f, alpha, out);
    return out;
  }
  f.nocase = g.re_i;
  sample_node(s, g.pat, f, al, out);
  if (g.re_wide && (!g.re_ascii || s.coin(50)))
    return to_wide(out);
  return out;
}

static bytes gen_set_buffer(Src& s, const GSet& gs, size_t maxsize = 2048)
{
  bytes B;
  std::vector<const GStr*> all;
  for (auto& r : gs.rules)
    for (auto& st : r.strs) all.push_back(&st);
  size_t nseg = s.range(0, 12);
  for (size_t i = 0; i < nseg && B.size() < maxsize; i++)
  {
    switch (s.weighted({25, all.empty() ? 0 : 45, 20, 10}))
    {
    case 0:
    {
      size_t n = s.range(0, 10);
      for (size_t k = 0; k < n; k++) B += (char) gen_pat_byte(s, (int) s.weighted({40, 15, 15, 10, 10, 10}));
      break;
    }
    case 1:
      B += sample_gstr(s, *all[s.range(0, all.size() - 1)]);
      break;
    case 2:
      B += gs.pool[s.range(0, gs.pool.size() - 1)];
      break;
    default:
      B += (char) (s.coin(50) ? ' ' : 'x');
    }
  }
  if (B.size() > maxsize)
    B.resize(maxsize);
  return B;
}

// multi-source compilation: (namespace, text) pairs, optional include table
struct SourceUnit
{
  std::string ns, text;
  int how = YS_ADD_STRING;
};

static CompileResult compile_units(const std::vector<SourceUnit>& units, Rules& out, const std::vector<ExtDef>& exts,
                                   const std::vector<std::pair<std::string, std::string>>& includes = {},
                                   std::vector<uint8_t>* atom_table = nullptr)
{
  CompileResult cr;
  int err = 0;
  ys_compiler* c = ys_compiler_new(&err);
  if (!c)
  {
    cr.errors = -1;
    cr.rc = err;
    return cr;
  }
  std::vector<const char*> names, contents;
  for (auto& inc : includes)
  {
    names.push_back(inc.first.c_str());
    contents.push_back(inc.second.c_str());
  }
  if (!includes.empty())
    ys_compiler_set_includes(c, (int) includes.size(), names.data(), contents.data());
  if (atom_table)
    ys_compiler_set_atom_table(c, atom_table->data(), (int) (atom_table->size() / 5), 0);
  for (auto& e : exts) ys_compiler_define(c, e.type, e.id.c_str(), e.i, e.f, e.s.c_str());
  for (auto& u : units)
  {
    int n = ys_compiler_add(c, u.how, u.text.c_str(), u.text.size(), u.ns == "default" ? nullptr : u.ns.c_str());
    cr.errors += n;
    if (n)
      break;
  }
  cr.diag = ys_compiler_diag(c);
  cr.first_error = ys_compiler_first_error(c);
  if (cr.errors == 0)
    cr.rc = ys_compiler_get_rules(c, &out.r);
  ys_compiler_free(c);
  return cr;
}

// sources for a subset of the rules (indices in definition order), one unit per
// namespace run (consecutive rules of the same namespace are glued together)
static std::vector<SourceUnit> units_for(const GSet& gs, const std::vector<int>& order)
{
  std::vector<SourceUnit> units;
  std::map<std::string, std::set<std::string>> imported;  // per namespace
  for (int idx : order)
  {
    const GRule& r = gs.rules[idx];
    std::string imp;
    for (auto& m : r.imports)
      if (imported[r.ns].insert(m).second)
        imp += "import \"" + m + "\"\n";
    if (units.empty() || units.back().ns != r.ns)
      units.push_back({r.ns, "", YS_ADD_STRING});
    units.back().text += imp + rule_source(r);
  }
  return units;
}

static bool compile_discardable(const CompileResult& cr)
{
  int fe = cr.first_error;
  return fe == 52 || fe == 44 || fe == 64 || fe == 62 || fe == 54 || fe == 45 || fe == 49;
}

// the record of one rule in a trace, as comparable text
static std::string rule_record(const Trace& t, const std::string& full)
{
  const MsgRec* m = t.rule(full);
  if (!m)
    return "(not reported)";
  std::string o(1, m->kind);
  for (auto& st : m->strings)
  {
    o += " " + st.ident + "[";
    for (auto& mm : st.m) o += strf("%lld:%d:%d,", (long long) mm.off, mm.len, mm.key);
    o += "]";
  }
  return o;
}
