// Text strings: AST, printer, generator, reference matcher (DESIGN.md 3.2).
// The matcher is written from docs/writingrules.rst ("Text strings" section and
// its sub-sections on nocase / wide / xor / base64 / fullword), not from scan.c.
#pragma once
#include "common.hpp"

struct TextStr
{
  bytes pat;
  bool ascii = false;  // explicit `ascii` keyword
  bool wide = false;
  bool nocase = false;
  bool fullword = false;
  bool priv = false;
  bool has_xor = false;
  bool xor_bare = false;  // printed as plain `xor`
  int xlo = 0, xhi = 255;
  bool b64 = false, b64wide = false;
  bytes alphabet;  // empty = default

  bool eff_ascii() const { return ascii || !wide; }
  bool is_b64() const { return b64 || b64wide; }
};

static const char* B64_DEFAULT = "ABCDEFGHIJKLMNOPQRSTUVWXYZabcdefghijklmnopqrstuvwxyz0123456789+/";

static inline bool is_alnum_byte(unsigned char c)
{
  return (c >= '0' && c <= '9') || (c >= 'A' && c <= 'Z') || (c >= 'a' && c <= 'z');
}
static inline unsigned char fold(unsigned char c) { return (c >= 'A' && c <= 'Z') ? c + 32 : c; }

static std::string print_text_string(const TextStr& t, const std::string& ident)
{
  std::string s = ident + " = " + text_literal(t.pat);
  if (t.ascii)
    s += " ascii";
  if (t.wide)
    s += " wide";
  if (t.nocase)
    s += " nocase";
  if (t.fullword)
    s += " fullword";
  if (t.priv)
    s += " private";
  if (t.has_xor)
  {
    if (t.xor_bare)
      s += " xor";
    else if (t.xlo == t.xhi)
      s += strf(" xor(%d)", t.xlo);
    else
      s += strf(" xor(0x%02x-%d)", t.xlo, t.xhi);
  }
  if (t.b64)
    s += t.alphabet.empty() ? " base64" : " base64(" + text_literal(t.alphabet) + ")";
  if (t.b64wide)
    s += t.alphabet.empty() ? " base64wide" : " base64wide(" + text_literal(t.alphabet) + ")";
  return s;
}

static bytes to_wide(const bytes& b)
{
  bytes o;
  for (char c : b)
  {
    o += c;
    o += '\0';
  }
  return o;
}

// The part of the base64 encoding of (i unknown bytes + s + unknown bytes) that
// is determined by s alone.  Independent derivation (bit arithmetic), see the
// manual's "Base64 strings" and the Lee Holmes article it cites.
static bytes b64_core(const bytes& s, int i, const bytes& alphabet)
{
  size_t n = i + s.size();
  size_t first = i == 0 ? 0 : (size_t) i + 1;  // ceil(8i/6)
  size_t complete = (8 * n) / 6;               // 6-bit groups fully inside the known bytes
  bytes out;
  for (size_t g = first; g < complete; g++)
  {
    unsigned v = 0;
    for (int b = 0; b < 6; b++)
    {
      size_t bit = g * 6 + b;
      size_t byte = bit / 8;
      unsigned char c = byte < (size_t) i ? 0 : (unsigned char) s[byte - i];
      v = (v << 1) | ((c >> (7 - bit % 8)) & 1);
    }
    out += alphabet[v];
  }
  return out;
}

// One concrete byte string the declaration can stand for, with the rule that
// decides `fullword` for it and how bytes are compared.
struct Variant
{
  bytes b;
  bool wide = false;  // delimiters are 2-byte units
  int key = 0;
  bool nocase = false;
};

static std::vector<Variant> variants_of(const TextStr& t)
{
  std::vector<Variant> v;
  std::vector<std::pair<bytes, bool>> base;  // after ascii/wide
  if (t.eff_ascii())
    base.push_back({t.pat, false});
  if (t.wide)
    base.push_back({to_wide(t.pat), true});
  if (t.is_b64())
  {
    bytes alpha = t.alphabet.empty() ? bytes(B64_DEFAULT, 64) : t.alphabet;
    for (auto& bw : base)
      for (int i = 0; i < 3; i++)
      {
        bytes core = b64_core(bw.first, i, alpha);
        if (core.empty())
          continue;
        if (t.b64)
          v.push_back({core, false, 0, false});
        if (t.b64wide)
          v.push_back({to_wide(core), false, 0, false});
      }
    return v;
  }
  for (auto& bw : base)
  {
    if (t.has_xor)
    {
      for (int k = t.xlo; k <= t.xhi; k++)
      {
        bytes x = bw.first;
        for (auto& c : x) c = (char) (c ^ k);
        v.push_back({x, bw.second, k, false});
      }
    }
    else
      v.push_back({bw.first, bw.second, 0, t.nocase});
  }
  return v;
}

static bool occurs_at(const Variant& v, const bytes& B, size_t o)
{
  if (o + v.b.size() > B.size())
    return false;
  if (v.nocase)
  {
    for (size_t i = 0; i < v.b.size(); i++)
      if (fold(B[o + i]) != fold(v.b[i]))
        return false;
    return true;
  }
  return memcmp(B.data() + o, v.b.data(), v.b.size()) == 0;
}

static bool fullword_ok(const Variant& v, const bytes& B, size_t o)
{
  size_t n = v.b.size();
  if (!v.wide)
  {
    if (o >= 1 && is_alnum_byte(B[o - 1]))
      return false;
    if (o + n < B.size() && is_alnum_byte(B[o + n]))
      return false;
    return true;
  }
  // wide: neighbouring character is a 2-byte unit; it is alphanumeric when its
  // low byte is alphanumeric and its high byte is zero (tests/test-rules.c)
  if (o >= 2 && B[o - 1] == 0 && is_alnum_byte(B[o - 2]))
    return false;
  if (o + n + 1 < B.size() && B[o + n + 1] == 0 && is_alnum_byte(B[o + n]))
    return false;
  return true;
}

typedef std::set<std::pair<int, int>> LenKeySet;  // (length, key)

// offset -> set of (length, key) the documentation allows there
static std::map<size_t, LenKeySet> model_text_matches(const TextStr& t, const bytes& B)
{
  std::map<size_t, LenKeySet> A;
  std::vector<Variant> vs = variants_of(t);
  if (t.has_xor)
  {
    // fast path: the key is determined by the first byte
    for (auto& v : vs)
      (void) v;
    std::vector<std::pair<bytes, bool>> base;
    if (t.eff_ascii())
      base.push_back({t.pat, false});
    if (t.wide)
      base.push_back({to_wide(t.pat), true});
    for (size_t o = 0; o < B.size(); o++)
      for (auto& bw : base)
      {
        if (o + bw.first.size() > B.size())
          continue;
        int k = (unsigned char) B[o] ^ (unsigned char) bw.first[0];
        if (k < t.xlo || k > t.xhi)
          continue;
        bool ok = true;
        for (size_t i = 0; i < bw.first.size() && ok; i++)
          ok = (unsigned char) B[o + i] == (((unsigned char) bw.first[i]) ^ k);
        if (!ok)
          continue;
        Variant v{bytes(), bw.second, k, false};
        v.b.assign(B.data() + o, bw.first.size());
        if (t.fullword && !fullword_ok(v, B, o))
          continue;
        A[o].insert({(int) v.b.size(), k});
      }
    return A;
  }
  for (size_t o = 0; o < B.size(); o++)
    for (auto& v : vs)
      if (occurs_at(v, B, o) && (!t.fullword || fullword_ok(v, B, o)))
        A[o].insert({(int) v.b.size(), v.key});
  return A;
}

// ------------------------------------------------------------- generators
static unsigned char gen_pat_byte(Src& s, int cls)
{
  static const unsigned char bad[] = {0x00, 0x20, 0x90, 0xcc, 0xff};
  switch (cls)
  {
  case 0:
    return (unsigned char) ('a' + s.range(0, 3));  // small alphabet: self overlaps likely
  case 1:
    return (unsigned char) ('A' + s.range(0, 25));
  case 2:
    return (unsigned char) ('a' + s.range(0, 25));
  case 3:
    return (unsigned char) ('0' + s.range(0, 9));
  case 4:
    return bad[s.range(0, 4)];
  default:
    return s.byte();
  }
}

static bytes gen_pattern(Src& s)
{
  size_t len;
  switch (s.weighted({30, 45, 20, 5}))
  {
  case 0:
    len = s.range(1, 4);
    break;
  case 1:
    len = s.range(5, 12);
    break;
  case 2:
    len = s.range(13, 48);
    break;
  default:
    len = s.range(49, 200);
  }
  bytes p;
  int shape = (int) s.weighted({40, 15, 15, 10, 10, 10});
  // 0: mixed classes; 1: bad prefix + good run; 2: run of one byte; 3: c 00 00 ..
  // 4: fully random; 5: good run then bad tail
  for (size_t i = 0; i < len; i++)
  {
    switch (shape)
    {
    case 0:
      p += (char) gen_pat_byte(s, (int) s.weighted({40, 15, 15, 10, 10, 10}));
      break;
    case 1:
      p += (char) (i + 4 < len ? gen_pat_byte(s, 4) : gen_pat_byte(s, 2));
      break;
    case 2:
      p += (char) (i == 0 || s.coin(85) ? (i == 0 ? gen_pat_byte(s, 5) : p[0]) : gen_pat_byte(s, 5));
      break;
    case 3:
      p += (char) (i == 0 ? gen_pat_byte(s, 2) : (s.coin(90) ? 0 : gen_pat_byte(s, 2)));
      break;
    case 4:
      p += (char) s.byte();
      break;
    default:
      p += (char) (i < 4 ? gen_pat_byte(s, 2) : gen_pat_byte(s, 4));
    }
  }
  return p;
}

static TextStr gen_text_string(Src& s, bool allow_b64 = true)
{
  TextStr t;
  t.pat = gen_pattern(s);
  int kind = (int) s.weighted({55, 25, allow_b64 ? 20 : 0});  // plain-ish / xor / base64
  int aw = (int) s.weighted({40, 10, 25, 25});                 // none, ascii, wide, ascii wide
  t.ascii = aw == 1 || aw == 3;
  t.wide = aw >= 2;
  t.priv = s.coin(10);
  if (kind == 0)
  {
    t.nocase = s.coin(35);
    t.fullword = s.coin(30);
  }
  else if (kind == 1)
  {
    t.has_xor = true;
    t.fullword = s.coin(25);
    switch (s.weighted({35, 15, 25, 25}))
    {
    case 0:
      t.xor_bare = true;
      t.xlo = 0;
      t.xhi = 255;
      break;
    case 1:
      t.xlo = t.xhi = (int) s.range(0, 255);
      break;
    case 2:
      t.xlo = (int) s.range(1, 255);
      t.xhi = (int) s.range(t.xlo, 255);
      break;
    default:
      t.xlo = 0;
      t.xhi = (int) s.range(0, 255);
    }
  }
  else
  {
    int w = (int) s.weighted({50, 25, 25});
    t.b64 = w == 0 || w == 2;
    t.b64wide = w >= 1;
    if (s.coin(35))
    {
      // custom alphabet: a permutation-ish of 64 generated symbols
      bytes a;
      int style = (int) s.weighted({50, 30, 20});
      if (style == 0)
      {
        a.assign(B64_DEFAULT, 64);  // rotate / swap the default
        size_t rot = s.range(1, 63);
        std::rotate(a.begin(), a.begin() + rot, a.end());
      }
      else if (style == 1)
      {
        const char* meta = "!@#$%^&*(){}[].,|\\?+-=~<>:;'\"_/ ";
        for (int i = 0; i < 64; i++) a += i < 32 ? meta[i] : (char) ('A' + (i - 32));
        size_t rot = s.range(0, 63);
        std::rotate(a.begin(), a.begin() + rot, a.end());
      }
      else
      {
        // arbitrary distinct bytes (incl. NUL and high bytes)
        unsigned start = (unsigned) s.range(0, 255), step = (unsigned) (2 * s.range(0, 63) + 1);
        for (int i = 0; i < 64; i++) a += (char) ((start + i * step) & 0xff);
      }
      t.alphabet = a;
    }
    // base64 strings are compiled to regular expressions, which the engine
    // verifies inside a 1024-byte window (YR_RE_SCAN_LIMIT, the bound property
    // C03 names); keep every encoded form below it.
    size_t factor = (t.wide ? 2 : 1) * (t.b64wide ? 2 : 1);
    size_t maxlen = 700 / (factor * 4 / 3 + 1);
    if (t.pat.size() > maxlen)
      t.pat.resize(maxlen);
  }
  return t;
}

struct BufFeatures
{
  int instances = 0, near_miss = 0, overlaps = 0, at_zero = 0, at_end = 0, alnum_delims = 0;
};

static bytes mix_case(Src& s, const bytes& b)
{
  bytes o = b;
  for (auto& c : o)
  {
    unsigned char u = (unsigned char) c;
    if (u >= 'a' && u <= 'z' && s.coin(50))
      c = (char) (u - 32);
    else if (u >= 'A' && u <= 'Z' && s.coin(50))
      c = (char) (u + 32);
  }
  return o;
}

// one concrete instance of the declaration (possibly of a key just outside the range)
static bytes gen_instance(Src& s, const TextStr& t, bool* in_spec)
{
  *in_spec = true;
  bool usewide = t.wide && (!t.eff_ascii() || s.coin(50));
  bytes base = usewide ? to_wide(t.pat) : t.pat;
  if (t.is_b64())
  {
    bytes alpha = t.alphabet.empty() ? bytes(B64_DEFAULT, 64) : t.alphabet;
    // a real base64 run: encode  prefix + pattern + suffix  with the alphabet
    bytes pre, post;
    size_t np = s.range(0, 5), ns = s.range(0, 5);
    for (size_t i = 0; i < np; i++) pre += (char) s.byte();
    for (size_t i = 0; i < ns; i++) post += (char) s.byte();
    bytes all = pre + base + post;
    bytes enc;
    size_t nbits = all.size() * 8;
    for (size_t g = 0; g * 6 < nbits; g++)
    {
      unsigned v = 0;
      for (int b = 0; b < 6; b++)
      {
        size_t bit = g * 6 + b;
        unsigned char c = bit / 8 < all.size() ? (unsigned char) all[bit / 8] : 0;
        v = (v << 1) | ((c >> (7 - bit % 8)) & 1);
      }
      enc += alpha[v];
    }
    bool w = t.b64wide && (!t.b64 || s.coin(50));
    return w ? to_wide(enc) : enc;
  }
  if (t.has_xor)
  {
    int k;
    switch (s.weighted({60, 20, 20}))
    {
    case 0:
      k = (int) s.range(t.xlo, t.xhi);
      break;
    case 1:
      k = t.xlo > 0 ? t.xlo - 1 : t.xhi;
      break;
    default:
      k = t.xhi < 255 ? t.xhi + 1 : t.xlo;
    }
    *in_spec = k >= t.xlo && k <= t.xhi;
    for (auto& c : base) c = (char) (c ^ k);
    return base;
  }
  if (t.nocase)
  {
    bytes m = mix_case(s, t.pat);
    return usewide ? to_wide(m) : m;
  }
  return base;
}

static bytes gen_filler(Src& s, const TextStr& t, size_t maxlen)
{
  size_t n = s.range(0, maxlen);
  bytes f;
  int style = (int) s.weighted({40, 25, 20, 15});
  for (size_t i = 0; i < n; i++)
  {
    switch (style)
    {
    case 0:
      f += t.pat[s.range(0, t.pat.size() - 1)];
      break;
    case 1:
      f += (char) s.byte();
      break;
    case 2:
      f += (char) gen_pat_byte(s, (int) s.range(0, 3));
      break;
    default:
      f += (char) (s.coin(50) ? 0 : gen_pat_byte(s, 2));
    }
  }
  return f;
}

static size_t border_of(const bytes& p)
{
  // longest proper border (prefix that is also a suffix)
  for (size_t k = p.size() - 1; k > 0; k--)
    if (memcmp(p.data(), p.data() + p.size() - k, k) == 0)
      return k;
  return 0;
}

static bytes gen_text_buffer(Src& s, const std::vector<TextStr>& strs, BufFeatures& bf,
                             size_t maxsize = 4096)
{
  bytes B;
  size_t nseg = s.range(1, 10);
  for (size_t i = 0; i < nseg && B.size() < maxsize; i++)
  {
    const TextStr& t = strs[s.range(0, strs.size() - 1)];
    int what = (int) s.weighted({30, 35, 15, 10, 10});
    // 0 filler, 1 instance, 2 near miss, 3 self-overlapping pair, 4 long filler
    if (what == 0)
      B += gen_filler(s, t, 12);
    else if (what == 4)
      B += gen_filler(s, t, 300);
    else
    {
      bool spec;
      bytes inst = gen_instance(s, t, &spec);
      // delimiter before
      int d = (int) s.weighted({40, 25, 20, 15});  // none, non-alnum, alnum, wide alnum
      if (d == 1)
        B += (char) (s.coin(50) ? ' ' : (char) s.range(0, 0x2f));
      else if (d == 2)
      {
        B += (char) gen_pat_byte(s, (int) s.range(1, 3));
        bf.alnum_delims++;
      }
      else if (d == 3)
      {
        B += (char) gen_pat_byte(s, (int) s.range(1, 3));
        B += '\0';
        bf.alnum_delims++;
      }
      if (what == 2 && !inst.empty())
      {
        int nm = (int) s.weighted({50, 25, 25});
        if (nm == 0)
        {
          size_t pos = s.range(0, inst.size() - 1);
          inst[pos] = (char) (inst[pos] ^ (1 << s.range(0, 7)));
        }
        else if (nm == 1)
          inst.resize(inst.size() - 1 - (inst.size() > 1 ? s.range(0, inst.size() - 2) : 0));
        else if (inst.size() >= 2)
        {
          size_t pos = s.range(0, inst.size() / 2 - 1) * 2 + 1;
          inst[pos] = (char) (inst[pos] ^ 0x01);  // wide high byte non zero / ascii change
        }
        bf.near_miss++;
        B += inst;
      }
      else if (what == 3)
      {
        size_t b = border_of(inst);
        if (B.empty())
          bf.at_zero++;
        B += inst;
        B += inst.substr(b);
        bf.instances += 2;
        if (b)
          bf.overlaps++;
      }
      else
      {
        if (B.empty())
          bf.at_zero++;
        B += inst;
        bf.instances++;
      }
      // delimiter after
      int e = (int) s.weighted({40, 25, 20, 15});
      if (e == 1)
        B += (char) s.range(0x20, 0x2f);
      else if (e == 2)
      {
        B += (char) gen_pat_byte(s, (int) s.range(1, 3));
        bf.alnum_delims++;
      }
      else if (e == 3)
      {
        B += (char) gen_pat_byte(s, (int) s.range(1, 3));
        B += '\0';
        bf.alnum_delims++;
      }
      else if (i + 1 == nseg)
        bf.at_end++;
    }
  }
  if (B.size() > maxsize)
    B.resize(maxsize);
  return B;
}
