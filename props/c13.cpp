// C13 - all scan entry points agree, also across interrupted block iteration.
#include "rulesetgen.hpp"
#include "samples.hpp"

const char* PROP_ID = "C13";
void prop_init()
{
  ys_set_arena_initial_size(262144);
  g_samples.load();
}

static const char* FIXED_RULES =
    "import \"pe\"\nimport \"elf\"\nimport \"math\"\nimport \"hash\"\n"
    "rule ep_defined { condition: defined entrypoint }\n"
    "rule ep_code { condition: uint8(entrypoint) >= 0 }\n"
    "rule fsize_even { condition: filesize % 2 == 0 }\n"
    "rule fsize_page { condition: filesize == 4096 or filesize == 8192 }\n"
    "rule is_pe { condition: pe.is_pe and pe.number_of_sections > 0 }\n"
    "rule is_elf { condition: defined elf.entry_point }\n"
    "rule entropy { condition: math.entropy(0, filesize) > 3.0 }\n"
    "rule crc { condition: hash.crc32(0, filesize) % 2 == 0 }\n"
    "rule sum_tail { condition: hash.checksum32(filesize - 10, 10) > 500 }\n"
    "rule two_abc { strings: $a = \"abc\" condition: #a >= 2 and @a[#a] > @a[1] }\n"
    "rule abc_far { strings: $a = \"abc\" condition: $a in (4000..9000) }\n"
    "rule mz0 { strings: $a = \"MZ\" condition: $a at 0 }\n"
    "rule rex { strings: $r = /ab+c/ condition: #r > 0 and !r[1] >= 3 }\n"
    "rule hexj { strings: $h = { 61 62 63 [2-300] 61 62 63 } condition: $h }\n"
    "rule last_byte { condition: uint8(filesize - 1) == 0x63 }\n"
    "rule rd32 { condition: uint32(4094) != 0 or uint16be(4095) == 0x6162 }\n";

static std::string filler_rules()
{
  std::string r;
  for (int i = 0; i < 70; i++)
    r += strf("rule fill_%02d { condition: filesize %% 5 == %d or uint8(%d) == 0x61 }\n", i, i % 5, i % 4);
  return r;
}

static std::string strip_lines(const std::string& t, char kind)
{
  std::istringstream is(t);
  std::string line, o;
  while (std::getline(is, line))
    if (line.empty() || line[0] != kind)
      o += line + "\n";
  return o;
}

static int g_flags = 0, g_timeout = 0;
static std::string do_scan(ys_rules* R, ys_scanner* sc, const bytes& b, int entry, const std::vector<uint32_t>& sizes,
                           uint64_t notready)
{
  ys_scan_opts o;
  memset(&o, 0, sizeof o);
  o.entry = entry;
  o.flags = g_flags;      // every entry point of a case gets the same flags and timeout
  o.timeout = g_timeout;
  o.with_strings = 1;
  o.nblocks = (int) sizes.size();
  o.block_sizes = sizes.data();
  o.notready_mask = notready;
  char* t = nullptr;
  ys_scan(R, sc, (const uint8_t*) b.data(), b.size(), &o, &t);
  std::string s = t;
  ys_free(t);
  return s;
}

// mask for "step i of the first pass reports not-ready nr[i] times before succeeding"
static uint64_t mask_from_steps(const std::vector<int>& nr)
{
  uint64_t m = 0;
  int bit = 0;
  for (int n : nr)
  {
    for (int k = 0; k < n && bit < 63; k++) m |= 1ULL << bit++;
    bit++;
  }
  return m;
}

std::string run_case(Src& s, CaseInfo& ci)
{
  GenOpts go;
  go.max_rules = 5;
  go.max_ns = 1;
  // the kind of buffer is drawn first: over the executable samples (tens of KiB) no regexps are generated
  // (an atom-less one such as /.*./ costs seconds per scan there, and a case is hundreds of scans); the
  // fixed rules still run the regexp engine on them
  {
    // report flags / fast mode / a generous timeout: arguments every entry point has to hand on unchanged
    static const int F[] = {0, 0, 8, 16, 24, 1, 9};
    g_flags = F[s.range(0, 6)];
    g_timeout = s.coin(30) ? 600 : 0;
  }
  const size_t bk = s.weighted({30, 12, 10, 8, 40});
  g_gen_no_regexp = bk >= 1 && bk <= 3;
  GSet gs = gen_ruleset(s, go);
  g_gen_no_regexp = false;
  for (auto& r : gs.rules) r.ns = "gen";
  std::vector<int> all;
  for (size_t i = 0; i < gs.rules.size(); i++) all.push_back((int) i);
  std::vector<SourceUnit> units = units_for(gs, all);
  units.insert(units.begin(), SourceUnit{"default", std::string(FIXED_RULES) + filler_rules(), YS_ADD_STRING});

  // the buffer
  bytes B;
  std::string kind;
  switch (bk)
  {
  case 0:
  {
    static const size_t SZ[] = {0, 1, 4095, 4096, 4097, 8192};
    size_t n = SZ[s.range(0, 5)];
    bytes unit = gen_set_buffer(s, gs, 200) + "abc";
    while (B.size() < n) B += unit + bytes(s.range(0, 40), (char) ('p' + s.range(0, 3)));
    B.resize(n);
    kind = strf("page-size(%zu)", n);
    break;
  }
  case 1:
    B = g_samples.pe;
    kind = "PE";
    break;
  case 2:
    B = g_samples.elf;
    kind = "ELF";
    break;
  case 3:
    B = g_samples.pe2.substr(0, 12000);
    kind = "PE";
    break;
  default:
    B = gen_set_buffer(s, gs, 3000);
    if (s.coin(50))
      B += "abc" + bytes(s.range(0, 300), 'x') + "abc";
    kind = "text";
  }
  // a partition for part B
  int nblocks = (int) s.range(1, 5);
  std::vector<uint32_t> sizes;
  {
    size_t rest = B.size();
    for (int b = 0; b < nblocks; b++)
    {
      size_t sz = b + 1 == nblocks ? rest : (size_t) s.range(0, rest);
      if (s.coin(30) && b + 1 < nblocks)
        sz = std::min<size_t>(rest, 4096);
      sizes.push_back((uint32_t) sz);
      rest -= sz;
    }
  }
  std::vector<std::vector<int>> schedules;
  if (nblocks <= 4)
  {
    for (int m = 1; m < (1 << (nblocks + 1)); m++)
    {
      std::vector<int> nr;
      for (int i = 0; i <= nblocks; i++) nr.push_back((m >> i) & 1);
      schedules.push_back(nr);
    }
  }
  size_t extra = s.range(1, 4);
  for (size_t e = 0; e < extra; e++)
  {
    std::vector<int> nr;
    for (int i = 0; i <= nblocks; i++) nr.push_back((int) s.weighted({50, 30, 20}));
    schedules.push_back(nr);
  }

  ci.desc = "rules: fixed set (props/c13.cpp) + namespace gen:\n";
  for (auto& u : units)
    if (u.ns == "gen")
      ci.desc += u.text;
  ci.desc += strf("buffer %s [%zu bytes] \"%s\"%s\nblocks:", kind.c_str(), B.size(), esc(B.substr(0, 300)).c_str(),
                  B.size() > 300 ? "..." : "");
  for (auto z : sizes) ci.desc += strf(" %u", z);
  ci.desc += strf("\n%zu not-ready schedules; flags=%d timeout=%d for every entry point\n", schedules.size(), g_flags, g_timeout);
  ci.hash = hstr(ci.desc);
  checkpoint(s, ci.desc);

  Rules R;
  CompileResult cr = compile_units(units, R, gs.exts);
  if (cr.errors || cr.rc)
  {
    if (compile_discardable(cr))
    {
      ci.discard = strf("constant/limit-rejected(%d)", cr.first_error);
      return "";
    }
    return "rule set rejected: " + cr.diag;
  }
  // ---- part A: every entry point, same bytes
  std::string ref = strip_lines(do_scan(R.r, nullptr, B, YS_SCAN_MEM, {}, 0), 'W');
  if (ref.find("\nR 46") != std::string::npos || ref.compare(0, 4, "R 46") == 0)
  {
    ci.discard = "too-many-fibers";
    return "";
  }
  static const char* ENTRY[] = {"mem", "file", "fd", "single-block iterator"};
  int err = 0;
  ys_scanner* sc = ys_scanner_new(R.r, &err);
  if (!sc)
    return "scanner creation failed";
  std::string failure;
  // the scanner object has already been used for other data, as a long-lived
  // scanner normally is
  do_scan(R.r, sc, "aaaa" + g_samples.macho.substr(0, 777), YS_SCAN_MEM, {}, 0);
  for (int entry = 0; entry < 4 && failure.empty(); entry++)
    for (int lvl = 0; lvl < 2 && failure.empty(); lvl++)
    {
      if (entry == 0 && lvl == 0)
        continue;
      std::string t = strip_lines(do_scan(R.r, lvl ? sc : nullptr, B, entry, {}, 0), 'W');
      ci.sub_evals++;
      if (t != ref)
        failure = strf("%s scan through %s differs from yr_rules_scan_mem:\n--- mem\n%s--- %s\n%s", lvl ? "scanner" : "rules-level",
                       ENTRY[entry], ref.substr(0, 1200).c_str(), ENTRY[entry], t.substr(0, 1200).c_str());
    }
  // ---- part B: interrupted block iteration
  bool interrupted_after_match = false;
  if (failure.empty())
  {
    std::string t0 = do_scan(R.r, sc, B, YS_SCAN_BLOCKS, sizes, 0);
    for (auto& nr : schedules)
    {
      uint64_t mask = mask_from_steps(nr);
      std::string t = do_scan(R.r, sc, B, YS_SCAN_BLOCKS, sizes, mask);
      ci.sub_evals++;
      // intermediate calls: "B <messages so far>" lines; no rule message may precede them
      std::istringstream is(t);
      std::string line;
      bool rule_msg = false;
      int nb = 0, expected_nb = 0;
      for (int n : nr) expected_nb += n;
      while (std::getline(is, line))
      {
        if (!line.empty() && (line[0] == 'M' || line[0] == 'N' || line[0] == 'F'))
          rule_msg = true;
        if (!line.empty() && line[0] == 'B')
        {
          nb++;
          if (rule_msg)
            failure = "a call that returned ERROR_BLOCK_NOT_READY had already emitted rule messages";
        }
      }
      if (failure.empty() && nb != expected_nb)
        failure = strf("%d calls returned ERROR_BLOCK_NOT_READY, %d expected from the iterator's schedule", nb, expected_nb);
      if (failure.empty() && strip_lines(t, 'B') != t0)
        failure = strf("block scan interrupted by not-ready (mask 0x%llx) ends differently from the uninterrupted scan of the "
                       "same blocks:\n--- uninterrupted\n%s--- interrupted and resumed\n%s",
                       (unsigned long long) mask, t0.substr(0, 1200).c_str(), strip_lines(t, 'B').substr(0, 1200).c_str());
      if (!failure.empty())
        break;
      if (nblocks >= 2 && nr.back() + nr[nblocks - 1] > 0 && t0.find("  m ") != std::string::npos)
        interrupted_after_match = true;
    }
  }
  ys_scanner_free(sc);
  ci.nontrivial = nblocks >= 2 && interrupted_after_match;
  ci.classes.push_back("buffer-" + kind);
  ci.classes.push_back(strf("blocks-%d", nblocks));
  return failure;
}

std::vector<FixedCase> fixed_cases() { return {}; }
