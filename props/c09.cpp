// C09 - concurrent scans that share one rule set are race-free and deterministic.
// Built with ThreadSanitizer (library, shim and this file).  Schedules are sampled.
#include "rulesetgen.hpp"
#include "samples.hpp"
#include <atomic>
#include <chrono>
#include <fcntl.h>
#include <sys/mman.h>
#include <sys/stat.h>
#include <mutex>
#include <thread>

const char* PROP_ID = "C09";
void prop_init()
{
  ys_set_arena_initial_size(262144);
  g_samples.load();
  g_gen_no_regexp = true;
}

static std::string fixed_rules()
{
  std::string r =
      "import \"tests\"\nimport \"pe\"\nimport \"elf\"\nimport \"hash\"\nimport \"math\"\n"
      "rule is_pe { condition: pe.is_pe and pe.number_of_sections > 0 }\n"
      "rule is_elf { condition: defined elf.entry_point and elf.number_of_sections > 0 }\n"
      "rule md5_head { condition: hash.md5(0, 16) == hash.md5(0, 16) and hash.sha256(0, filesize) != \"\" }\n"
      "rule entropy { condition: math.entropy(0, filesize) > 3.5 }\n"
      "rule crc_even { condition: hash.crc32(0, filesize) % 2 == 0 }\n"
      "rule re1 { strings: $r = /ab+c(d|e)?/ $w = /a.c/ wide condition: #r > 0 or $w }\n"
      "rule str1 { strings: $a = \"abc\" $b = \"MZ\" $h = { 7F 45 4C 46 } condition: #a > 1 or $b at 0 or $h at 0 }\n"
      "rule loops { strings: $a = \"abc\" condition: for any i in (1..#a) : (@a[i] % 2 == 0) and \"xyzabc\" matches /z.b/ }\n"
      "rule size_small { condition: filesize < 64 }\n"
      "rule hot { strings: $h = { 1f 1f } $o = \"abc\" condition: $h or $o }\n"
      "rule slow { condition: for any i in (0..filesize \\ 64) : ( hash.checksum32(i, 64) == 0xFFFFFFFF ) }\n";
  for (int i = 0; i < 4; i++) r += strf("rule md%d { condition: tests.module_data == \"blob%d\" }\n", i, i);
  for (int i = 6; i <= 9; i++) r += strf("rule xi%d { condition: xi == %d }\n", i, i);
  r += "rule xs_a { condition: xs == \"a\" }\nrule xs_abc { condition: xs == \"abc\" }\nrule xs_long { condition: xs startswith \"long\" }\n";
  r += "rule xb_on { condition: xb }\nrule xf_big { condition: xf > 100.0 }\n";
  return r;
}

struct ScanSpec
{
  int buf = 0, entry = 0;
  bool scanner = false;
  int xi = 7;
  int xs = 0;  // 0 "abc" (compile-time value), 1 "a", 2 long
  bool xb = true;
  int script_k = 0, script_action = 0;
  int yield_us = 0;
  int blob = 0;
  int flags = 0;
  bool sigbus = false;  // block scan whose last block lies in a truncated file mapping
  int park_us = 0;
  int timeout = 0;      // seconds; chosen far above what the scan needs
  bool unmappable = false;  // scan by path of a file that can be opened but not mapped (sysfs): an error result
};

// a file that open() accepts and mmap() refuses, if this system has one
static const char* unmappable_path()
{
  static std::string found;
  static bool looked = false;
  if (!looked)
  {
    looked = true;
    for (const char* p : {"/sys/kernel/notes", "/sys/kernel/uevent_seqnum", "/sys/devices/system/cpu/online"})
    {
      int fd = open(p, O_RDONLY);
      if (fd < 0)
        continue;
      struct stat st;
      if (fstat(fd, &st) == 0 && st.st_size > 0)
      {
        void* m = mmap(nullptr, st.st_size, PROT_READ, MAP_PRIVATE, fd, 0);
        if (m == MAP_FAILED)
          found = p;
        else
          munmap(m, st.st_size);
      }
      close(fd);
      if (!found.empty())
        break;
    }
  }
  return found.empty() ? nullptr : found.c_str();
}

static const char* XS[] = {"abc", "a", "long-long-long-long-long-long-long-long-long-long-string"};

static std::string one_scan(ys_rules* R, const std::vector<bytes>& bufs, const ScanSpec& sp)
{
  static const char* BLOBS[] = {"blob0", "blob1", "blob2", "blob3"};
  ys_scan_opts o;
  memset(&o, 0, sizeof o);
  o.entry = sp.entry;
  o.flags = sp.flags;
  o.script_k = sp.script_k;
  o.script_action = sp.script_action;
  o.with_strings = 1;
  o.yield_us = sp.yield_us;
  o.timeout = sp.timeout;
  if (sp.unmappable && unmappable_path())
  {
    o.entry = YS_SCAN_FILE;
    o.scan_path = unmappable_path();
  }
  o.modname = "tests";
  o.moddata = BLOBS[sp.blob];
  o.moddata_len = 5;
  uint32_t sizes[2] = {(uint32_t) (bufs[sp.buf].size() / 2), (uint32_t) (bufs[sp.buf].size() - bufs[sp.buf].size() / 2)};
  if (sp.sigbus)
  {
    o.entry = YS_SCAN_BLOCKS;
    o.nblocks = 2;
    o.block_sizes = sizes;
    o.fault_block = 2;
    o.park_us = sp.park_us;
  }
  ys_scanner* sc = nullptr;
  if (sp.scanner || sp.sigbus)
  {
    int err = 0;
    sc = ys_scanner_new(R, &err);
    if (!sc)
      return strf("scanner creation failed: %d", err);
    ys_scanner_define(sc, YS_EXT_INT, "xi", sp.xi, 0, nullptr);
    ys_scanner_define(sc, YS_EXT_STR, "xs", 0, 0, XS[sp.xs]);
    ys_scanner_define(sc, YS_EXT_BOOL, "xb", sp.xb, 0, nullptr);
  }
  char* t = nullptr;
  double t0 = now_s();
  int rc = ys_scan(R, sc, (const uint8_t*) bufs[sp.buf].data(), bufs[sp.buf].size(), &o, &t);
  double wall = now_s() - t0;
  std::string s = t;
  ys_free(t);
  if (sc)
    ys_scanner_free(sc);
  if (rc == 26 && sp.timeout > 0)
  {
    // a timeout is a statement about wall-clock seconds of THIS scan.  Under load a scan may honestly
    // run out of time; that is inconclusive.  Timing out after less than half the allowance is not.
    if (wall < sp.timeout / 2.0)
      return strf("TIMEOUT-TOO-EARLY: the scan was stopped with ERROR_SCAN_TIMEOUT after %.2f s of wall-clock time although its timeout is %d s\n", wall, sp.timeout);
    return "TIMEOUT-INCONCLUSIVE\n";
  }
  return s;
}

std::string run_case(Src& s, CaseInfo& ci)
{
  GenOpts go;
  go.max_rules = 4;
  go.max_ns = 1;
  go.allow_console = false;  // console output order is not part of a scan's own result
  GSet gs = gen_ruleset(s, go);
  for (auto& r : gs.rules) r.ns = "gen";
  std::vector<int> all;
  for (size_t i = 0; i < gs.rules.size(); i++) all.push_back((int) i);
  std::vector<SourceUnit> units = units_for(gs, all);
  units.insert(units.begin(), SourceUnit{"default", fixed_rules(), YS_ADD_STRING});

  std::vector<bytes> bufs = {g_samples.pe, g_samples.elf, "xx abc abbbcd abc a\0c\0 yy", "", g_samples.pe2.substr(0, 8000)};
  bufs[2] = bytes("xx abc abbbcd abc a\0" "b\0" "c\0 yy", 27);
  bufs.push_back(gen_set_buffer(s, gs, 1500));
  const int BIG = (int) bufs.size();
  {
    bytes big(3 << 20, '\0');  // rule `slow` walks it in 64-byte steps: a scan that keeps a core busy for a while
    uint32_t x = 12345;
    for (auto& ch : big)
    {
      x = x * 1664525u + 1013904223u;
      ch = (char) (x >> 24);
    }
    bufs.push_back(big);
  }
  const int HOT = (int) bufs.size();
  bufs.push_back(bytes(1000100, '\x1f'));  // $h of rule `hot` passes YR_MAX_STRING_MATCHES; the callback says continue

  static const int TC[] = {1, 2, 3, 4, 8, 16, 32};
  int nthreads = TC[s.weighted({5, 25, 15, 20, 15, 12, 8})];
  // 0: ordinary plan; 1: every thread also runs one CPU-heavy scan with a timeout far above its needs
  // (a scan's timeout must not be consumed by what other threads do); 2: one thread drives a string
  // over the match limit while the others scan the same string
  int heavy = (int) s.weighted({90, 0, 10});  // (mode 1 lives in the fixed case `timeouts-are-per-scan`)
  if (heavy == 2 && nthreads > 4)
    nthreads = 4;
  std::vector<std::vector<ScanSpec>> plan(nthreads);
  int features = 0;
  for (int t = 0; t < nthreads; t++)
  {
    size_t nscans = s.range(1, nthreads > 8 ? 2 : 4);
    for (size_t k = 0; k < nscans; k++)
    {
      ScanSpec sp;
      sp.buf = (int) s.range(0, BIG - 1);
      sp.entry = (int) s.weighted({60, 20, 20});  // mem, file (memory-mapped), fd
      sp.scanner = s.coin(60);
      if (sp.scanner)
      {
        sp.xi = (int) s.range(6, 9);
        sp.xs = (int) s.range(0, 2);
        sp.xb = s.coin(50);
        features |= 4;
      }
      int scr = (int) s.weighted({60, 20, 20});
      if (scr)
      {
        sp.script_k = (int) s.range(1, 25);
        sp.script_action = scr;
        features |= 16;
      }
      sp.yield_us = (int) s.weighted({40, 30, 30}) == 0 ? 0 : (s.coin(50) ? -1 : (int) s.range(1, 300));
      sp.blob = (int) s.range(0, 3);
      static const int F[] = {0, 1, 8, 24};
      sp.flags = F[s.range(0, 3)];
      if (sp.entry == YS_SCAN_FILE)
        features |= 8;
      if (s.coin(12) && bufs[sp.buf].size() >= 2)
      {
        // a scan whose data disappears under it (file truncated while mapped): the
        // library must turn the SIGBUS into ERROR_COULD_NOT_MAP_FILE, also when other
        // scans enter and leave their own protected regions meanwhile
        sp.sigbus = true;
        sp.scanner = true;
        sp.script_k = sp.script_action = 0;
        sp.flags = 0;
        sp.park_us = (int) s.range(0, 3000);
        features |= 8 | 16;
      }
      if (!sp.sigbus && s.coin(10) && unmappable_path())
      {
        // a file scan that fails inside the library (the file opens but cannot be mapped): its error
        // path must not disturb the descriptors other threads are using
        sp.unmappable = true;
        sp.script_k = sp.script_action = 0;
        features |= 8 | 16;
      }
      features |= 1 | 2;  // the fixed rules always use the regexp VM and modules
      plan[t].push_back(sp);
    }
    if (heavy == 1)
    {
      ScanSpec sp;
      sp.buf = BIG;
      sp.scanner = true;
      sp.timeout = 4;
      plan[t].insert(plan[t].begin(), sp);
    }
    if (heavy == 2)
    {
      ScanSpec sp;
      sp.buf = t == 0 ? HOT : 2;
      sp.scanner = t % 2 == 0;
      sp.yield_us = t == 0 ? 0 : -1;
      plan[t].insert(plan[t].begin(), sp);
      if (t != 0)
        for (int k = 0; k < 6; k++) plan[t].push_back(sp);
    }
  }
  int repeats = (int) s.range(1, 3);
  if (heavy)
    repeats = 1;

  ci.desc = "rules: fixed set (props/c09.cpp) + namespace gen:\n";
  for (auto& u : units)
    if (u.ns == "gen")
      ci.desc += u.text;
  ci.desc += strf("%d threads, plan repeated %d times%s:\n", nthreads, repeats,
                  heavy == 1 ? ", each thread first scans 3 MiB with rule `slow` (timeout 4 s)" : heavy == 2 ? ", thread 0 first scans 1000100 x 0x1f (rule `hot` over the match limit)" : "");
  for (int t = 0; t < nthreads && t < 6; t++)
    for (auto& sp : plan[t])
      ci.desc += strf(" t%d: buf%d(%zu bytes) entry=%d %s xi=%d xs=%d script=%d@%d yield=%d blob%d flags=%d%s\n", t, sp.buf, bufs[sp.buf].size(),
                      sp.entry, sp.scanner ? "scanner" : "rules-level", sp.xi, sp.xs, sp.script_action, sp.script_k, sp.yield_us, sp.blob, sp.flags,
                      sp.sigbus ? strf(" SIGBUS-in-2nd-block(park %d us)", sp.park_us).c_str() : sp.unmappable ? " file-that-cannot-be-mapped" : "");
  ci.hash = hstr(ci.desc);
  checkpoint(s, ci.desc);

  Rules R;
  CompileResult cr = compile_units(units, R, gs.exts);
  if (cr.errors || cr.rc)
  {
    if (compile_discardable(cr))
    {
      ci.discard = strf("constant/limit-rejected(%d)", cr.first_error);
      return "";
    }
    return "rule set rejected: " + cr.diag;
  }
  // single-threaded reference results
  std::vector<std::vector<std::string>> ref(nthreads);
  {
    // identical scans have identical reference results: compute each once
    std::map<std::string, std::string> memo;
    for (int t = 0; t < nthreads; t++)
      for (auto& sp : plan[t])
      {
        std::string key = strf("%d/%d/%d/%d/%d/%d/%d/%d/%d/%d/%d/%d/%d", sp.buf, sp.entry, (int) sp.scanner, sp.xi, sp.xs, (int) sp.xb, sp.script_k,
                               sp.script_action, sp.blob, sp.flags, (int) sp.sigbus + 2 * (int) sp.unmappable, sp.timeout, sp.yield_us != 0);
        auto it = memo.find(key);
        if (it == memo.end())
          it = memo.emplace(key, one_scan(R.r, bufs, sp)).first;
        ref[t].push_back(it->second);
      }
  }

  std::string failure;
  bool overlapped = false;
  for (int rep = 0; rep < repeats && failure.empty(); rep++)
  {
    std::vector<std::vector<std::string>> got(nthreads);
    std::vector<std::pair<double, double>> span(nthreads);
    std::atomic<int> ready{0};
    std::atomic<bool> go_flag{false};
    std::vector<std::thread> th;
    for (int t = 0; t < nthreads; t++)
      th.emplace_back([&, t]() {
        ready++;
        while (!go_flag.load()) std::this_thread::yield();
        span[t].first = now_s();
        for (auto& sp : plan[t]) got[t].push_back(one_scan(R.r, bufs, sp));
        span[t].second = now_s();
      });
    while (ready.load() < nthreads) std::this_thread::yield();
    go_flag = true;
    for (auto& x : th) x.join();
    ci.sub_evals++;
    for (int a = 0; a < nthreads; a++)
      for (int b = a + 1; b < nthreads; b++)
        if (span[a].first < span[b].second && span[b].first < span[a].second)
          overlapped = true;
    for (int t = 0; t < nthreads && failure.empty(); t++)
      for (size_t k = 0; k < plan[t].size(); k++)
        if (got[t][k] == "TIMEOUT-INCONCLUSIVE\n" || ref[t][k] == "TIMEOUT-INCONCLUSIVE\n")
        {
          ci.classes.push_back("inconclusive:honest-timeout-under-load");
          continue;
        }
        else if (got[t][k] != ref[t][k])
        {
          failure = strf("thread %d, scan %zu reports something else than the same scan run alone (%d threads):\n--- alone\n%s--- concurrent\n%s",
                         t, k, nthreads, ref[t][k].substr(0, 1200).c_str(), got[t][k].substr(0, 1200).c_str());
          break;
        }
  }
  int nfeat = __builtin_popcount(features);
  ci.nontrivial = nthreads >= 2 && overlapped && nfeat >= 2;
  ci.classes.push_back(strf("threads-%02d", nthreads));
  if (overlapped)
    ci.classes.push_back("scans-overlapped-in-time");
  if (features & 8)
    ci.classes.push_back("memory-mapped-file-scan");
  if (features & 16)
    ci.classes.push_back("aborted/failed-scan-among-them");
  if (heavy == 1)
    ci.classes.push_back("cpu-heavy-scans-with-timeout");
  if (heavy == 2)
    ci.classes.push_back("string-over-the-match-limit-in-one-thread");
  return failure;
}

// A scan's timeout counts the seconds of THAT scan.  Sixteen threads, each with its own scanner and a
// 3 s timeout, scan 3 MiB with a rule that keeps a core busy for a fraction of a second.  Run as a
// fixed case (before the 16 worker processes start) so that the threads really run in parallel.
static std::string timeouts_are_per_scan(CaseInfo& ci)
{
  std::vector<SourceUnit> units = {SourceUnit{"default", fixed_rules(), YS_ADD_STRING}};
  Rules R;
  CompileResult cr = compile_units(units, R, gset_exts());
  if (cr.errors || cr.rc)
    return "fixed rule set rejected: " + cr.diag;
  std::vector<bytes> bufs(1, bytes(3 << 20, '\0'));
  uint32_t x = 12345;
  for (auto& ch : bufs[0])
  {
    x = x * 1664525u + 1013904223u;
    ch = (char) (x >> 24);
  }
  ScanSpec sp;
  sp.buf = 0;
  sp.scanner = true;
  sp.timeout = 3;
  std::string ref = one_scan(R.r, bufs, sp);
  const int N = 16;
  std::vector<std::string> got(N);
  std::atomic<bool> go_flag{false};
  std::vector<std::thread> th;
  for (int t = 0; t < N; t++)
    th.emplace_back([&, t]() {
      while (!go_flag.load()) std::this_thread::yield();
      got[t] = one_scan(R.r, bufs, sp);
    });
  go_flag = true;
  for (auto& t : th) t.join();
  ci.desc = "16 threads x (own scanner, timeout 3 s) scanning 3 MiB with the fixed rule set (rule `slow`)";
  ci.sub_evals = N;
  for (int t = 0; t < N; t++)
  {
    if (got[t].rfind("TIMEOUT-TOO-EARLY:", 0) == 0)
      return strf("thread %d: %s", t, got[t].c_str());
    if (got[t] == "TIMEOUT-INCONCLUSIVE\n" || ref == "TIMEOUT-INCONCLUSIVE\n")
      continue;  // an honest timeout on an overloaded machine
    if (got[t] != ref)
      return strf("thread %d reports something else than the same scan run alone:\n--- alone\n%s--- concurrent\n%s", t,
                  ref.substr(0, 600).c_str(), got[t].substr(0, 600).c_str());
  }
  return "";
}

// One thread drives a string over YR_MAX_STRING_MATCHES (the callback answers "continue", so that string is
// muted for the rest of THAT scan) while three others keep scanning small buffers that contain the same
// string: their results must not change, and nothing they share may be written (TSan).
static std::string match_limit_is_private(CaseInfo& ci)
{
  std::vector<SourceUnit> units = {SourceUnit{"default", fixed_rules(), YS_ADD_STRING}};
  Rules R;
  CompileResult cr = compile_units(units, R, gset_exts());
  if (cr.errors || cr.rc)
    return "fixed rule set rejected: " + cr.diag;
  std::vector<bytes> bufs = {bytes(1000100, '\x1f'), bytes("\x1f\x1f abc \x1f\x1f\x1f xx", 15)};
  ScanSpec hot, small;
  hot.buf = 0;
  hot.scanner = true;
  small.buf = 1;
  std::string ref_hot = one_scan(R.r, bufs, hot), ref_small = one_scan(R.r, bufs, small);
  small.scanner = true;
  std::string ref_small_sc = one_scan(R.r, bufs, small);
  if (ref_hot.find("T default:hot $h") == std::string::npos)
    return "harness: the hot buffer does not reach the match limit";
  std::atomic<bool> go_flag{false}, done{false};
  std::string failure;
  std::mutex mu;
  long scans = 0;
  std::vector<std::thread> th;
  th.emplace_back([&]() {
    while (!go_flag.load()) std::this_thread::yield();
    std::string g = one_scan(R.r, bufs, hot);
    done = true;
    if (g != ref_hot)
    {
      std::lock_guard<std::mutex> l(mu);
      failure = "the scan that passes the match limit reports something else than when run alone";
    }
  });
  for (int t = 1; t < 4; t++)
    th.emplace_back([&, t]() {
      ScanSpec sp = small;
      sp.scanner = t % 2 == 0;
      const std::string& want = sp.scanner ? ref_small_sc : ref_small;
      while (!go_flag.load()) std::this_thread::yield();
      for (int k = 0; k < 200000 && !done.load(); k++)
      {
        std::string g = one_scan(R.r, bufs, sp);
        std::lock_guard<std::mutex> l(mu);
        scans++;
        if (g != want && failure.empty())
          failure = strf("thread %d, scan %d of a 15-byte buffer while another thread is over the match limit:\n--- alone\n%s--- concurrent\n%s", t, k,
                         want.substr(0, 500).c_str(), g.substr(0, 500).c_str());
      }
    });
  go_flag = true;
  for (auto& t : th) t.join();
  ci.desc = strf("1 thread scanning 1000100 x 0x1f (rule `hot` over the match limit) + 3 threads scanning a 15-byte buffer %ld times meanwhile", scans);
  ci.sub_evals = (int) std::min<long>(scans, 1000000) + 1;
  return failure;
}

// Three threads keep scanning (by path) a file that opens but cannot be mapped - every one of those scans
// fails inside the library - while six threads keep scanning good files through path and descriptor entry
// points.  The failing scans must not disturb the others: each good scan gives its reference result.
static std::string failing_scans_are_private(CaseInfo& ci)
{
  if (!unmappable_path())
  {
    ci.desc = "no file on this system opens but refuses mmap: case skipped";
    return "";
  }
  std::vector<SourceUnit> units = {SourceUnit{"default", fixed_rules(), YS_ADD_STRING}};
  Rules R;
  CompileResult cr = compile_units(units, R, gset_exts());
  if (cr.errors || cr.rc)
    return "fixed rule set rejected: " + cr.diag;
  std::vector<bytes> bufs = {bytes("xx abc abbbcd abc yy"), g_samples.pe2.substr(0, 6000)};
  ScanSpec bad;
  bad.buf = 0;
  bad.unmappable = true;
  std::string ref_bad = one_scan(R.r, bufs, bad);
  std::vector<ScanSpec> good(6);
  std::vector<std::string> ref(6);
  for (int t = 0; t < 6; t++)
  {
    good[t].buf = t % 2;
    good[t].entry = t % 3 == 0 ? YS_SCAN_FD : YS_SCAN_FILE;
    good[t].scanner = t >= 3;
    ref[t] = one_scan(R.r, bufs, good[t]);
  }
  std::atomic<bool> go_flag{false}, stop{false};
  std::string failure;
  std::mutex mu;
  long scans = 0;
  std::vector<std::thread> th;
  for (int t = 0; t < 3; t++)
    th.emplace_back([&]() {
      while (!go_flag.load()) std::this_thread::yield();
      while (!stop.load())
      {
        std::string g = one_scan(R.r, bufs, bad);
        if (g != ref_bad)
        {
          std::lock_guard<std::mutex> l(mu);
          if (failure.empty())
            failure = "the scan of the unmappable file reports something else than when run alone:\n--- alone\n" + ref_bad.substr(0, 300) +
                      "--- concurrent\n" + g.substr(0, 300);
        }
      }
    });
  for (int t = 0; t < 6; t++)
    th.emplace_back([&, t]() {
      while (!go_flag.load()) std::this_thread::yield();
      while (!stop.load())
      {
        std::string g = one_scan(R.r, bufs, good[t]);
        std::lock_guard<std::mutex> l(mu);
        scans++;
        if (g != ref[t] && failure.empty())
          failure = strf("a scan of a good file (%s entry point, thread %d) while other threads' file scans fail:\n--- alone\n%s--- concurrent\n%s",
                         good[t].entry == YS_SCAN_FD ? "descriptor" : "path", t, ref[t].substr(0, 400).c_str(), g.substr(0, 400).c_str());
      }
    });
  double t0 = now_s();
  go_flag = true;
  while (now_s() - t0 < 8.0)
  {
    std::this_thread::sleep_for(std::chrono::milliseconds(50));
    std::lock_guard<std::mutex> l(mu);
    if (!failure.empty())
      break;
  }
  stop = true;
  for (auto& t : th) t.join();
  ci.desc = strf("3 threads scanning %s (cannot be mapped) + 6 threads scanning good files %ld times meanwhile", unmappable_path(), scans);
  ci.sub_evals = (int) std::min<long>(scans, 1000000) + 1;
  return failure;
}

std::vector<FixedCase> fixed_cases()
{
  return {{"timeouts-are-per-scan", timeouts_are_per_scan},
          {"match-limit-is-private", match_limit_is_private},
          {"failing-scans-are-private", failing_scans_are_private}};
}
