// Executable samples shipped with the repository (read from the tree under test).
#pragma once
#include "common.hpp"

static bytes read_file(const std::string& p)
{
  std::ifstream in(p, std::ios::binary);
  std::stringstream ss;
  ss << in.rdbuf();
  return ss.str();
}
static std::string repo_dir()
{
  const char* r = getenv("VERIF_REPO");
  return r ? r : "/repo";
}
struct Samples
{
  bytes pe, elf, macho, pe2, dotnet;
  void load()
  {
    std::string d = repo_dir() + "/tests/data/";
    pe = read_file(d + "tiny");
    elf = read_file(d + "elf_with_imports");
    macho = read_file(d + "tiny-macho");
    pe2 = read_file(d + "pe_mingw");
    dotnet = read_file(d + "bad_dotnet_pe");
  }
};
static Samples g_samples;
