// C01 - text-string matches are exactly the documented occurrences.
#include "textmodel.hpp"

const char* PROP_ID = "C01";
void prop_init() { ys_set_arena_initial_size(65536); }

static const char* COND_FORMS[] = {"$a", "#a > 0", "any of them", "for any of them : ($)",
                                   "@a >= 0", "!a > 0"};

// Known finding: an "ascii wide" xor string is verified with whatever key the
// data implies, without checking the declared key range, when an atom of the
// *other* form led to the offset.  Signature = exactly that situation: the
// reported (offset,len,key) is the pattern's ascii or wide form XOR a key
// outside [xlo,xhi].
static const char* SIG_XOR_RANGE = "C01:xor-key-outside-declared-range:ascii+wide";
static bool xor_other_form_key(const TextStr& t, const bytes& B, const MatchRec& g)
{
  if (!t.has_xor || !t.wide || !t.eff_ascii() || g.off < 0)
    return false;
  if (g.key >= t.xlo && g.key <= t.xhi)
    return false;
  for (int w = 0; w < 2; w++)
  {
    bytes f = w ? to_wide(t.pat) : t.pat;
    if ((size_t) g.len != f.size() || (size_t) g.off + f.size() > B.size())
      continue;
    bool ok = true;
    for (size_t i = 0; i < f.size() && ok; i++) ok = (unsigned char) B[g.off + i] == (((unsigned char) f[i]) ^ g.key);
    if (ok)
      return true;
  }
  return false;
}

static std::string check_case(const std::vector<TextStr>& strs, const std::vector<int>& forms,
                              const std::vector<bytes>& bufs, const BufFeatures& bf, CaseInfo& ci,
                              const Src* src);

std::string run_case(Src& s, CaseInfo& ci)
{
  size_t nstr = 1 + s.weighted({60, 20, 10, 10});
  std::vector<TextStr> strs;
  std::vector<int> forms;
  for (size_t i = 0; i < nstr; i++)
  {
    strs.push_back(gen_text_string(s));
    forms.push_back((int) s.range(0, 5));
  }
  size_t nbuf = s.range(1, 3);
  std::vector<bytes> bufs;
  BufFeatures bf;
  for (size_t i = 0; i < nbuf; i++) bufs.push_back(gen_text_buffer(s, strs, bf));
  return check_case(strs, forms, bufs, bf, ci, &s);
}

static std::string check_case(const std::vector<TextStr>& strs, const std::vector<int>& forms,
                              const std::vector<bytes>& bufs, const BufFeatures& bf, CaseInfo& ci,
                              const Src* srcp)
{
  std::string src;
  for (size_t i = 0; i < strs.size(); i++)
    src += strf("rule r%zu { strings: %s condition: %s }\n", i,
                print_text_string(strs[i], "$a").c_str(), COND_FORMS[forms[i]]);
  ci.desc = src;
  for (auto& b : bufs) ci.desc += "buffer[" + std::to_string(b.size()) + "] \"" + esc(b) + "\"\n";
  ci.hash = hstr(ci.desc);
  if (srcp)
    checkpoint(*srcp, ci.desc);

  Rules rules;
  CompileResult cr = compile_simple(src, rules);
  if (cr.errors != 0 || cr.rc != 0)
  {
    // the only documented rejection for a legal text string is a base64 form
    // that exceeds the regular-expression size limits (C15 material)
    if (cr.first_error == 45 /*RE too large*/ || cr.first_error == 49 /*too complex*/)
    {
      ci.discard = "regexp-limit";
      return "";
    }
    return "legal text string rejected by the compiler: " + cr.diag;
  }

  bool any_expected = false;
  for (size_t bi = 0; bi < bufs.size(); bi++)
  {
    Trace tr = scan_simple(rules.r, bufs[bi]);
    ci.sub_evals += strs.size();
    if (tr.rc != 0)
      return strf("scan of buffer %zu returned %d", bi, tr.rc);
    for (size_t i = 0; i < strs.size(); i++)
    {
      auto A = model_text_matches(strs[i], bufs[bi]);
      if (!A.empty())
        any_expected = true;
      const MsgRec* m = tr.rule("default:r" + std::to_string(i));
      if (!m)
        return strf("rule r%zu not reported for buffer %zu", i, bi);
      if (m->strings.size() != 1)
        return strf("rule r%zu: %zu strings reported", i, m->strings.size());
      const auto& got = m->strings[0].m;
      size_t extra_known = 0;
      // ascending, no duplicates
      for (size_t k = 1; k < got.size(); k++)
        if (got[k].off <= got[k - 1].off)
          return strf("r%zu buffer %zu: match list not strictly ascending at index %zu (%lld after %lld)",
                      i, bi, k, (long long) got[k].off, (long long) got[k - 1].off);
      // nothing extra, true length and key
      for (auto& g : got)
      {
        auto it = A.find((size_t) g.off);
        if (it == A.end() && xor_other_form_key(strs[i], bufs[bi], g) && is_known(SIG_XOR_RANGE))
        {
          ci.known.push_back(SIG_XOR_RANGE);
          extra_known++;
          continue;
        }
        if (g.off < 0 || it == A.end())
          return strf("r%zu buffer %zu: reported match at offset %lld (len %d key %d) is not an occurrence",
                      i, bi, (long long) g.off, g.len, g.key);
        if (!it->second.count({g.len, g.key}))
          return strf("r%zu buffer %zu: match at %lld reported with len %d key %d; documented: len %d key %d",
                      i, bi, (long long) g.off, g.len, g.key, it->second.begin()->first,
                      it->second.begin()->second);
      }
      // nothing missed
      if (got.size() - extra_known != A.size())
      {
        std::set<int64_t> have;
        for (auto& g : got) have.insert(g.off);
        for (auto& kv : A)
          if (!have.count((int64_t) kv.first))
            return strf("r%zu buffer %zu: occurrence at offset %zu (len %d key %d) not reported", i, bi,
                        kv.first, kv.second.begin()->first, kv.second.begin()->second);
      }
      // the verdict follows the reported list; a match that is the listed known finding (key outside
      // the declared range) makes the rule true on the unchanged tree, which is the same root cause
      bool verdict = m->kind == 'M';
      if (verdict != (!A.empty() || extra_known > 0))
        return strf("r%zu buffer %zu: verdict %d but %zu occurrences", i, bi, (int) verdict, A.size());
    }
  }

  ci.nontrivial = any_expected && (bf.near_miss + bf.overlaps + bf.at_zero + bf.at_end + bf.alnum_delims) > 0;
  for (auto& t : strs)
  {
    if (t.pat.size() <= 4)
      ci.classes.push_back("fits-in-atom");
    if (t.wide && !t.eff_ascii())
      ci.classes.push_back("wide-only");
    if (t.wide && t.eff_ascii())
      ci.classes.push_back("ascii+wide");
    if (t.nocase)
      ci.classes.push_back("nocase");
    if (t.fullword)
      ci.classes.push_back("fullword");
    if (t.has_xor)
      ci.classes.push_back(t.xlo == 0 && t.xhi == 255 ? "xor-full" : "xor-subrange");
    if (t.is_b64())
      ci.classes.push_back(t.alphabet.empty() ? "base64-default" : "base64-custom");
    if (t.priv)
      ci.classes.push_back("private");
  }
  if (any_expected)
    ci.classes.push_back("has-occurrence");
  if (bf.near_miss)
    ci.classes.push_back("buf-near-miss");
  if (bf.overlaps)
    ci.classes.push_back("buf-overlap");
  if (bf.at_zero)
    ci.classes.push_back("buf-instance-at-0");
  if (bf.at_end)
    ci.classes.push_back("buf-instance-at-end");
  if (bf.alnum_delims)
    ci.classes.push_back("buf-alnum-delim");
  return "";
}

static FixedCase fx(const std::string& name, TextStr t, const bytes& buf)
{
  return {name, [=](CaseInfo& ci) {
            BufFeatures bf;
            return check_case({t}, {0}, {buf}, bf, ci, nullptr);
          }};
}

std::vector<FixedCase> fixed_cases()
{
  std::vector<FixedCase> v;
  {  // known finding: key outside the declared range through the other form's atom
    TextStr t;
    t.pat = bytes("a\0\0\0\0\0\0\0\0\0\0\0\0\0\0\0\0\0\0\0\0\0\0\0\0\0aa\0\0\0\0\0\0\0\0\0\0a\0\0\0", 42);
    t.ascii = t.wide = true;
    t.has_xor = true;
    t.xlo = t.xhi = 0;
    bytes inst = t.pat;
    for (auto& c : inst) c ^= 1;
    bytes buf = bytes("\0", 1) + t.pat + " aaa" + bytes("\0a\0aa\0", 6) + inst + " " + t.pat;
    v.push_back(fx("known-xor-key-range", t, buf));
  }
  {  // fixed fbd4e39: wide-only xor string matched its ascii form
    TextStr t;
    t.pat = bytes("a\0\0", 3);
    t.wide = true;
    t.has_xor = true;
    t.xlo = t.xhi = 0;
    v.push_back(fx("fixed-wide-xor-ascii-form", t, bytes("aaaaaaaaaa\0\0\0", 13)));
  }
  {  // fixed 542d6f7: fullword rejection of the ascii form hid the wide form
    TextStr t;
    t.pat = bytes("a\0\0\0", 4);
    t.ascii = t.wide = t.fullword = true;
    v.push_back(fx("fixed-fullword-hides-wide", t, bytes("aaaaaaaaaaaaaaaaaaaa\0\0\0\0\0\0\0", 27)));
    TextStr u = t;
    u.has_xor = true;
    u.xor_bare = true;
    v.push_back(fx("fixed-fullword-hides-ascii-xor", u, bytes("A\0`\x01\x01\x01\x01\x01\x01\x01", 10)));
  }
  {  // plain sanity cases
    TextStr t;
    t.pat = "abc";
    v.push_back(fx("plain-overlap", t, "abcabcabc xabcx abc"));
    t.fullword = true;
    t.wide = true;
    t.ascii = true;
    v.push_back(fx("fullword-ascii-wide", t, bytes("abc a\0b\0c\0 xabc x\0a\0b\0c\0 \x01""a\0b\0c\0", 36)));
  }
  return v;
}
