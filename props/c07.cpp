// C07 - compiling arbitrary text never crashes and every failure is diagnosed.
// libFuzzer target with a token-level custom mutator.
#include "common.hpp"

const char* PROP_ID = "C07";

static const char* CANARY_SRC =
    "import \"math\"\n"
    "rule c1 { strings: $a = \"canary\" $h = { 63 61 [1-3] 61 } $r = /c.n+a/ condition: all of them and math.entropy(0, filesize) > 1.0 }\n"
    "global rule c2 { condition: filesize > 3 }\n"
    "rule c3 : t { meta: m = 1 condition: for all i in (0..2) : (uint8(i) > 0x60) and c1 }\n";
static std::string g_canary_trace;

static std::string canary()
{
  Rules R;
  CompileResult cr = compile_simple(CANARY_SRC, R);
  if (cr.errors || cr.rc)
    return "canary rules do not compile any more: " + cr.diag;
  std::string raw;
  scan_simple(R.r, "the canary sings", 0, true, &raw);
  if (g_canary_trace.empty())
    g_canary_trace = raw;
  else if (raw != g_canary_trace)
    return "canary scan changed:\n" + raw;
  return "";
}

void prop_init()
{
  ys_set_arena_initial_size(65536);
  std::string c = canary();
  if (!c.empty() || g_canary_trace.find("M default:c3") == std::string::npos)
  {
    fprintf(stderr, "C07: canary broken at start-up: %s\n%s\n", c.c_str(), g_canary_trace.c_str());
    _exit(3);
  }
}

static uint64_t g_iter = 0;

std::string run_case(Src& s, CaseInfo& ci)
{
  bytes in = s.rest(8192);
  g_iter++;
  if (in.empty())
    return "";
  unsigned char opt = (unsigned char) in[0];
  std::string text = in.substr(1);
  int how = opt & 3;
  bool strict = opt & 4, with_ext = opt & 8, with_inc = opt & 16;
  // NUL-terminated entry points see the text up to the first NUL
  ci.hash = fnv1a(in.data(), in.size());

  int err = 0;
  ys_compiler* c = ys_compiler_new(&err);
  if (!c)
    return strf("yr_compiler_create failed: %d", err);
  if (strict)
    ys_compiler_set_strict_escape(c, 1);
  if (with_ext)
  {
    ys_compiler_define(c, YS_EXT_INT, "xi", 7, 0, nullptr);
    ys_compiler_define(c, YS_EXT_FLOAT, "xf", 0, 2.5, nullptr);
    ys_compiler_define(c, YS_EXT_BOOL, "xb", 1, 0, nullptr);
    ys_compiler_define(c, YS_EXT_STR, "xs", 0, 0, "abc");
  }
  std::string q1 = text.substr(0, text.size() / 4), q2 = text.substr(text.size() / 4, text.size() / 4),
              q3 = text.substr(text.size() / 2);
  std::string deep = "include \"deep\"\n", chain[18];
  for (int i = 0; i < 18; i++) chain[i] = i == 17 ? "rule tail { condition: true }\n" : strf("include \"n%d\"\n", i + 1);
  std::vector<const char*> names = {"i0", "i1", "i2", "self", "deep"}, contents = {q1.c_str(), q2.c_str(), q3.c_str(), text.c_str(), deep.c_str()};
  std::vector<std::string> cn;
  for (int i = 0; i < 18; i++) cn.push_back(strf("n%d", i));
  for (int i = 0; i < 18; i++)
  {
    names.push_back(cn[i].c_str());
    contents.push_back(chain[i].c_str());
  }
  if (with_inc)
    ys_compiler_set_includes(c, (int) names.size(), names.data(), contents.data());

  // the name a file / fd source is reported under; relative include paths are resolved against its
  // directory part (bits 6-7 of the option byte: default name, a path, a very long path)
  {
    static std::string deep;
    if (deep.empty())
    {
      for (int i = 0; i < 90; i++) deep += "directory/";
      deep += "rules.yar";
    }
    int shape = opt >> 6;
    ys_set_source_name(shape == 0 ? "" : shape == 1 ? "rules/main.yar" : shape == 2 ? deep.c_str() : "/abs/dir/main.yar");
  }
  int nerr = ys_compiler_add(c, how, text.c_str(), how == YS_ADD_STRING ? strlen(text.c_str()) : text.size(), (opt & 32) ? "ns" : nullptr);
  int ncb = ys_compiler_error_callbacks(c), bad = ys_compiler_bad_callbacks(c), fe = ys_compiler_first_error(c);
  std::string diag = ys_compiler_diag(c);
  std::string failure;
  if (nerr < 0)
    failure = strf("yr_compiler_add_* returned %d", nerr);
  else if (nerr == 0 && ncb != 0)
    failure = strf("compilation reported 0 errors but the error callback was invoked %d times at ERROR level:\n%s", ncb, diag.c_str());
  else if (nerr > 0 && ncb == 0)
    failure = strf("compilation returned %d errors without invoking the error callback", nerr);
  else if (nerr > 0 && ncb != nerr)
    failure = strf("compilation returned %d errors but the error callback was invoked %d times", nerr, ncb);
  else if (bad)
    failure = strf("%d error callbacks had an empty message or a negative line number:\n%s", bad, diag.c_str());
  ys_rules* R = nullptr;
  if (failure.empty() && nerr == 0)
  {
    int rc = ys_compiler_get_rules(c, &R);
    if (rc != 0)
      failure = strf("sources compiled without errors but yr_compiler_get_rules returned %d", rc);
    else
    {
      ys_scan_opts o;
      memset(&o, 0, sizeof o);
      o.timeout = 5;
      o.with_strings = 1;
      char* t = nullptr;
      const char* buf = "the canary sings abc \x00\x01 MZ abcabc";
      int src = ys_scan(R, nullptr, (const uint8_t*) buf, 33, &o, &t);
      ys_free(t);
      // documented scan-time errors are acceptable outcomes of a successful compilation
      if (src != 0 && src != 26 && src != 46 && src != 25 && src != 30)
        failure = strf("rules compiled from the input make a scan return %d", src);
      ys_rules_free(R);
    }
  }
  ys_compiler_free(c);
  if (failure.empty() && (g_iter & 31) == 0)
    failure = canary();

  bool skeleton = text.find("rule") != bytes::npos && text.find('{') != bytes::npos && text.find("condition") != bytes::npos;
  ci.nontrivial = skeleton && nerr > 0 && fe != 0;
  if (nerr > 0)
    ci.classes.push_back(strf("error-%02d", fe));
  else
    ci.classes.push_back("compiles");
  ci.classes.push_back(strf("entry-%d", how));
  if (ci.nontrivial)
    ci.desc = "input: " + esc(text.substr(0, 300)) + "\ndiagnostics: " + diag.substr(0, 300);
  if (!failure.empty())
    ci.desc = "input: " + esc(text.substr(0, 2000)) + strf("\noptions: how=%d strict=%d ext=%d includes=%d", how, strict, with_ext, with_inc);
  return failure;
}

std::vector<FixedCase> fixed_cases() { return {}; }

#ifdef VERIF_LIBFUZZER
// ------------------------------------------------------- token-level mutator
extern "C" size_t LLVMFuzzerMutate(uint8_t* data, size_t size, size_t max_size);

static std::vector<std::string> tokenize(const std::string& t)
{
  std::vector<std::string> out;
  size_t i = 0;
  while (i < t.size())
  {
    unsigned char c = (unsigned char) t[i];
    size_t j = i;
    if (isspace(c))
    {
      while (j < t.size() && isspace((unsigned char) t[j])) j++;
    }
    else if (isalnum(c) || c == '_' || c == '$' || c == '#' || c == '@' || c == '!')
    {
      j++;
      while (j < t.size() && (isalnum((unsigned char) t[j]) || t[j] == '_' || t[j] == '*')) j++;
    }
    else if (c == '"')
    {
      j++;
      while (j < t.size() && t[j] != '"' && t[j] != '\n')
      {
        if (t[j] == '\\')
          j++;
        j++;
      }
      j = std::min(t.size(), j + 1);
    }
    else if (c == '/' && i + 1 < t.size() && t[i + 1] != '/' && t[i + 1] != '*')
    {
      j++;
      while (j < t.size() && t[j] != '/' && t[j] != '\n')
      {
        if (t[j] == '\\')
          j++;
        j++;
      }
      j = std::min(t.size(), j + 1);
    }
    else if (c == '{' && i > 0 && t.find('}', i) != std::string::npos && t.find('}', i) - i < 200 &&
             t.rfind('=', i) != std::string::npos && i - t.rfind('=', i) < 4)
    {
      j = t.find('}', i) + 1;  // hex string body
    }
    else
      j++;
    out.push_back(t.substr(i, j - i));
    i = j;
  }
  return out;
}

extern "C" size_t LLVMFuzzerCustomMutator(uint8_t* data, size_t size, size_t max_size, unsigned int seed)
{
  uint64_t r = seed * 6364136223846793005ULL + 1442695040888963407ULL;
  auto next = [&]() {
    r = r * 6364136223846793005ULL + 1442695040888963407ULL;
    return (uint32_t) (r >> 33);
  };
  if (size < 2 || next() % 4 == 0)
    return LLVMFuzzerMutate(data, size, max_size);
  unsigned char opt = data[0];
  std::string text((const char*) data + 1, size - 1);
  std::vector<std::string> tok = tokenize(text);
  if (tok.empty())
    return LLVMFuzzerMutate(data, size, max_size);
  static const char* KW[] = {"rule", "private", "global", "meta", "strings", "condition", "and", "or", "not", "defined",
                             "for", "of", "in", "any", "all", "none", "them", "at", "filesize", "entrypoint", "matches",
                             "contains", "icontains", "startswith", "endswith", "iequals", "import", "include", "true", "false",
                             "ascii", "wide", "nocase", "fullword", "xor", "base64", "base64wide", "uint8", "int32be",
                             "(", ")", "{", "}", "[", "]", ":", "=", "==", "!=", "<", ">", "<=", ">=", "+", "-", "*", "\\", "%",
                             "&", "|", "^", "~", "<<", ">>", "..", ",", ".", "$a", "#a", "@a", "!a", "$", "$a*", "\"abc\"",
                             "/ab+c/", "{ 41 ?? [2-4] 42 }", "0x10", "1KB", "9223372036854775807", "1.5", "pe", "math", "xi", "xs"};
  size_t nkw = sizeof(KW) / sizeof(KW[0]);
  size_t k = next() % tok.size();
  switch (next() % 12)
  {
  case 0:  // delete a token
    tok.erase(tok.begin() + k);
    break;
  case 1:  // duplicate
    tok.insert(tok.begin() + k, tok[k]);
    break;
  case 2:  // swap two tokens
    std::swap(tok[k], tok[next() % tok.size()]);
    break;
  case 3:  // replace by a keyword / operator / literal
    tok[k] = KW[next() % nkw];
    break;
  case 4:  // insert
    tok.insert(tok.begin() + k, std::string(" ") + KW[next() % nkw] + " ");
    break;
  case 5:  // truncate after token k: an error at this grammar position
    tok.resize(k + 1);
    break;
  case 6:
  {  // blow a token up to a limit (identifier 128, lexer buffer 8192, repeat 32767, integers)
    static const size_t L[] = {127, 128, 129, 255, 4096, 8191, 8193};
    size_t n = L[next() % 7];
    if (tok[k].size() && (isalpha((unsigned char) tok[k][0]) || tok[k][0] == '$'))
      tok[k] += std::string(n, 'a');
    else if (tok[k].size() > 1 && tok[k][0] == '"')
      tok[k] = "\"" + std::string(n, 'x') + "\"";
    else if (tok[k].size() > 1 && tok[k][0] == '/')
      tok[k] = strf("/a{%u}(b|c){1,%u}.*/", next() % 40000, next() % 40000);
    else if (isdigit((unsigned char) tok[k][0]))
      tok[k] = (next() % 2) ? "9223372036854775808" : "18446744073709551616";
    else
      tok[k] = std::string(n > 300 ? 300 : n, '(') + "true" + std::string(n > 300 ? 300 : n, ')');
    break;
  }
  case 7:
  {  // nest: wrap a range of tokens in loops / parentheses
    size_t e = std::min(tok.size(), k + 1 + next() % 6);
    int depth = 1 + next() % 6;
    std::string pre, post;
    for (int d = 0; d < depth; d++)
    {
      if (next() % 2)
      {
        pre += strf("for any v%d in (0..2) : (", d);
        post += ")";
      }
      else
      {
        pre += "not (";
        post += ")";
      }
    }
    tok.insert(tok.begin() + e, post);
    tok.insert(tok.begin() + k, pre);
    break;
  }
  case 8:  // break a hex string / regexp from inside
    if (tok[k].size() > 2 && (tok[k][0] == '{' || tok[k][0] == '/'))
    {
      static const char* J[] = {"[5-2]", "[-]", "(", "|", "~??", "[0]", "{,}", "\\", "[z-a]", "(?", "*", "{99999}", ")", "\\x4"};
      tok[k].insert(1 + next() % (tok[k].size() - 1), J[next() % 14]);
    }
    else
      tok[k] = "{ 41 ( 42 | [300] ) }";
    break;
  case 9:  // include directives (served by the harness when the option bit is set)
  {
    static const char* INC[] = {"include \"i0\"\n", "include \"i1\"\n", "include \"self\"\n", "include \"deep\"\n", "include \"n0\"\n",
                                "include \"n1\"\n", "include \"missing\"\n"};
    tok.insert(tok.begin() + k, INC[next() % 7]);
    opt |= 16;
    break;
  }
  case 10:  // flip harness options
    opt = (unsigned char) next();
    break;
  default:  // splice a whole small rule
    tok.insert(tok.begin() + k, strf(" rule z%u { strings: $a = \"a\" condition: $a and %s } ", next() % 100, KW[next() % nkw]));
  }
  std::string out(1, (char) opt);
  for (auto& t : tok) out += t;
  if (out.size() > max_size)
    out.resize(max_size);
  memcpy(data, out.data(), out.size());
  return out.size();
}
#endif
