// C11 - the scan callback protocol is exact (model-based, exhaustive over the
// message index at which the callback interrupts).
#include "condmodel.hpp"

const char* PROP_ID = "C11";
void prop_init() { ys_set_arena_initial_size(65536); }

struct PRule
{
  std::string ns, name;
  bool global = false, priv = false;
  std::vector<TextStr> strs;
  std::vector<std::string> ids;
  Expr cond;
  std::vector<std::string> imports;  // import statements placed before this rule
};

static const char* MODS[] = {"tests", "math", "string", "time", "pe", "elf", "hash"};

std::string run_case(Src& s, CaseInfo& ci)
{
  static const char* NS[] = {"default", "nsA", "nsB", "n03", "n04", "n05", "n06", "n07", "n08", "n09", "n10", "n11"};
  static const char* pats[] = {"abc", "bc", "xyz", "aa", "hello"};
  // mostly 1-3 namespaces; sometimes up to 12, so that per-namespace state does not fit a byte
  bool many_ns = s.coin(15);
  size_t nrules = many_ns ? s.range(10, 16) : s.range(1, 12);
  size_t nns = many_ns ? s.range(9, 12) : s.range(1, 3);
  std::vector<PRule> rules;
  for (size_t r = 0; r < nrules; r++)
  {
    PRule p;
    p.ns = NS[s.range(0, nns - 1)];
    p.name = strf("r%zu", r);
    p.global = s.coin(22);
    p.priv = s.coin(22);
    size_t nstr = s.weighted({40, 40, 20});
    static const char* IDS[] = {"$_s1", "$_t1"};
    for (size_t i = 0; i < nstr; i++)
    {
      TextStr t;
      t.pat = pats[s.range(0, 4)];
      p.strs.push_back(t);
      p.ids.push_back(IDS[i]);
    }
    GenCtx g;
    g.str_ids = p.ids;
    for (auto& q : rules)
      if (q.ns == p.ns)
        g.rule_ids.push_back(q.name);
    g.budget = (int) s.range(1, 8);
    g.allow_undef = s.coin(40);
    p.cond = gen_bool(s, g, (int) s.range(0, 3));
    size_t nimp = s.weighted({65, 25, 10});
    for (size_t i = 0; i < nimp; i++) p.imports.push_back(MODS[s.range(0, 6)]);
    rules.push_back(p);
  }
  int flagsel = (int) s.range(0, 3);
  static const int FLAGS[] = {0, 8, 16, 24};
  int flags = FLAGS[flagsel];
  bytes buf;
  {
    size_t nseg = s.range(0, 6);
    for (size_t i = 0; i < nseg; i++) buf += s.coin(60) ? bytes(pats[s.range(0, 4)]) : bytes(1, (char) ('p' + s.range(0, 5)));
  }
  // another buffer: the persistent scanner scans it first, so the sequence for `buf` is produced by a
  // scanner that has already reported something else ("exactly one ... per scan" holds for every scan)
  bytes other;
  {
    size_t nseg = s.range(0, 6);
    for (size_t i = 0; i < nseg; i++) other += s.coin(60) ? bytes(pats[s.range(0, 4)]) : bytes(1, (char) ('p' + s.range(0, 5)));
  }

  // source text: one unit per namespace run
  struct Unit
  {
    std::string ns, text;
  };
  std::vector<Unit> units;
  std::vector<std::string> import_order;  // distinct modules in order of first import
  for (auto& p : rules)
  {
    if (units.empty() || units.back().ns != p.ns)
      units.push_back({p.ns, ""});
    for (auto& m : p.imports)
    {
      units.back().text += "import \"" + m + "\"\n";
      if (std::find(import_order.begin(), import_order.end(), m) == import_order.end())
        import_order.push_back(m);
    }
    PrintCtx pc{&p.ids};
    std::string t = std::string(p.global ? "global " : "") + (p.priv ? "private " : "") + "rule " + p.name + " {";
    if (!p.strs.empty())
    {
      t += " strings:";
      for (size_t i = 0; i < p.strs.size(); i++) t += " " + print_text_string(p.strs[i], p.ids[i]);
    }
    t += " condition: " + print_expr(p.cond, pc) + " }\n";
    units.back().text += t;
  }
  std::string src;
  for (auto& u : units) src += "// namespace " + u.ns + "\n" + u.text;
  ci.desc = src + strf("flags=%d\nbuffer \"%s\"\nscanned before on the same scanner: \"%s\"\n", flags, esc(buf).c_str(), esc(other).c_str());
  ci.hash = hstr(ci.desc);
  checkpoint(s, ci.desc);

  int err = 0;
  ys_compiler* c = ys_compiler_new(&err);
  if (!c)
    return "compiler creation failed";
  ys_compiler_define(c, YS_EXT_INT, "xi", 7, 0, nullptr);
  ys_compiler_define(c, YS_EXT_FLOAT, "xf", 0, 2.5, nullptr);
  ys_compiler_define(c, YS_EXT_BOOL, "xb", 1, 0, nullptr);
  ys_compiler_define(c, YS_EXT_STR, "xs", 0, 0, "abc");
  int nerr = 0;
  for (auto& u : units)
  {
    nerr += ys_compiler_add(c, YS_ADD_STRING, u.text.c_str(), u.text.size(), u.ns == "default" ? nullptr : u.ns.c_str());
    if (nerr)
      break;  // capi: a compiler that reported errors accepts no further sources
  }
  Rules R;
  int fe = ys_compiler_first_error(c);
  std::string diag = ys_compiler_diag(c);
  int grc = nerr ? -1 : ys_compiler_get_rules(c, &R.r);
  ys_compiler_free(c);
  if (nerr || grc)
  {
    if (fe == 52 || fe == 44 || fe == 64 || fe == 62 || fe == 54)
    {
      ci.discard = strf("constant-rejected(%d)", fe);
      return "";
    }
    return "generated rule set rejected: " + diag;
  }

  // ---- model
  EvalCtx cx;
  cx.buf = &buf;
  cx.ext["xi"] = Val::in(7);
  cx.ext["xf"] = Val::fl(2.5);
  cx.ext["xb"] = Val::b(true);
  cx.ext["xs"] = Val::st("abc");
  std::vector<bool> own(rules.size());
  bool uses_known_dev = false;
  for (size_t r = 0; r < rules.size(); r++)
  {
    // rule references resolve inside the namespace: keep a per-namespace view
    cx.matches.clear();
    for (auto& t : rules[r].strs)
    {
      std::vector<MatchRec> ml;
      for (auto& kv : model_text_matches(t, buf)) ml.push_back({(int64_t) kv.first, kv.second.begin()->first, 0, 0});
      cx.matches.push_back(ml);
    }
    cx.rules.clear();
    for (size_t q = 0; q < r; q++)
      if (rules[q].ns == rules[r].ns)
        cx.rules[rules[q].name] = own[q];
    cx.saw_undef_quantifier = cx.saw_undef_loop_bound = false;
    own[r] = truthy(eval(rules[r].cond, cx));
    uses_known_dev = uses_known_dev || cx.saw_undef_quantifier || cx.saw_undef_loop_bound;
  }
  if (uses_known_dev)
  {
    // conditions whose truth depends on the two C04 known findings are not used
    // to judge the protocol
    ci.discard = "condition-touches-C04-known-finding";
    return "";
  }
  std::vector<std::string> expected;  // message lines
  for (auto& m : import_order)
  {
    expected.push_back("I " + m);
    expected.push_back("D " + m);
  }
  size_t nmodule_msgs = expected.size();
  for (size_t r = 0; r < rules.size(); r++)
  {
    if (rules[r].priv)
      continue;
    bool ok = own[r];
    for (size_t q = 0; q < rules.size(); q++)
      if (rules[q].global && rules[q].ns == rules[r].ns)
        ok = ok && own[q];
    bool rep_m = flags == 0 || (flags & 8), rep_n = flags == 0 || (flags & 16);
    if (ok && rep_m)
      expected.push_back("M " + rules[r].ns + ":" + rules[r].name);
    else if (!ok && rep_n)
      expected.push_back("N " + rules[r].ns + ":" + rules[r].name);
  }
  expected.push_back("F");

  // scanner-level scans of a case reuse ONE scanner, so every scan after an
  // interrupted one must still produce its complete message sequence ("exactly one
  // import and one imported message per scan")
  int e0 = 0;
  ys_scanner* persistent = s.coin(70) ? ys_scanner_new(R.r, &e0) : nullptr;
  auto run = [&](int k, int action, bool scanner, std::vector<std::string>& got) -> int {
    ys_scan_opts o;
    memset(&o, 0, sizeof o);
    o.flags = flags;
    o.script_k = k;
    o.script_action = action;
    ys_scanner* sc = nullptr;
    if (scanner && persistent)
      sc = persistent;
    else if (scanner)
    {
      int e2 = 0;
      sc = ys_scanner_new(R.r, &e2);
    }
    char* t = nullptr;
    int rc = ys_scan(R.r, sc, (const uint8_t*) buf.data(), buf.size(), &o, &t);
    std::istringstream is(t);
    std::string line;
    while (std::getline(is, line))
      if (!line.empty() && line[0] != 'R')
        got.push_back(line);
    ys_free(t);
    if (sc && sc != persistent)
      ys_scanner_free(sc);
    return rc;
  };
  struct Guard
  {
    ys_scanner* p;
    ~Guard() { ys_scanner_free(p); }
  } guard{persistent};
  if (persistent)
  {
    ys_scan_opts o;
    memset(&o, 0, sizeof o);
    o.flags = flags;
    char* t = nullptr;
    ys_scan(R.r, persistent, (const uint8_t*) other.data(), other.size(), &o, &t);
    ys_free(t);
  }
  auto join = [](const std::vector<std::string>& v) {
    std::string o;
    for (auto& l : v) o += l + "; ";
    return o;
  };

  // uninterrupted scan
  {
    std::vector<std::string> got;
    int rc = run(0, 0, s.coin(50), got);
    ci.sub_evals++;
    if (rc != 0)
      return strf("uninterrupted scan returned %d", rc);
    if (got != expected)
      return "uninterrupted scan: messages\n  got:      " + join(got) + "\n  expected: " + join(expected);
  }
  // every k, both actions
  int interrupted_late = 0;
  for (int k = 1; k <= (int) expected.size() + 1; k++)
    for (int action = 1; action <= 2; action++)
    {
      std::vector<std::string> got;
      int rc = run(k, action, (k + action) % 2, got);
      ci.sub_evals++;
      std::vector<std::string> want;
      int want_rc = 0;
      if (k > (int) expected.size())
        want = expected;
      else
      {
        bool module_msg = (size_t) k <= nmodule_msgs;
        bool finished_msg = k == (int) expected.size();
        if (module_msg && action == 1)
          want = expected;  // abort in reply to a module message: the property is silent, the engine goes on
        else if (finished_msg)
          want = expected;  // nothing can follow the last message; its reply has no documented effect
        else
        {
          want.assign(expected.begin(), expected.begin() + k);
          want_rc = action == 2 ? 28 : 0;
        }
      }
      if (got != want || rc != want_rc)
        return strf("callback replies %s to message %d: rc %d (expected %d), messages\n  got:      ",
                    action == 1 ? "ABORT" : "ERROR", k, rc, want_rc) + join(got) + "\n  expected: " + join(want);
      if (k > 1)
        interrupted_late++;
    }

  std::set<std::string> nss;
  bool hasg = false, hasp = false;
  for (auto& p : rules)
  {
    nss.insert(p.ns);
    hasg = hasg || p.global;
    hasp = hasp || p.priv;
  }
  ci.nontrivial = hasg && hasp && (nss.size() >= 2 || !import_order.empty()) && interrupted_late > 0;
  if (hasg)
    ci.classes.push_back("global-rule");
  if (hasp)
    ci.classes.push_back("private-rule");
  if (nss.size() >= 2)
    ci.classes.push_back("multi-namespace");
  if (!import_order.empty())
    ci.classes.push_back("imports");
  ci.classes.push_back(strf("flags-%d", flags));
  if (persistent)
    ci.classes.push_back("one-scanner-reused-for-all-scans");
  return "";
}

std::vector<FixedCase> fixed_cases() { return {}; }
