// C08 - saved rules behave identically once loaded.
#include "rulesetgen.hpp"
#include <spawn.h>
#include <sys/wait.h>
extern char** environ;

const char* PROP_ID = "C08";
void prop_init() { ys_set_arena_initial_size(262144); }

static const char* SIG_SAVE_AFTER_STRDEF = "C08:save-after-rules-level-string-redefinition:assert-in-yr_arena_save_stream";

static std::string scan_text(ys_rules* r, ys_scanner* sc, const bytes& b)
{
  ys_scan_opts o;
  memset(&o, 0, sizeof o);
  o.with_strings = 1;
  char* t = nullptr;
  ys_scan(r, sc, (const uint8_t*) b.data(), b.size(), &o, &t);
  std::string s = t;
  ys_free(t);
  return s;
}

static std::vector<SourceUnit> g_units_for_aux;

// --aux <file with units>: compile and print the FNV hash of the saved image
extern "C" int prop_aux(int argc, char** argv)
{
  if (argc < 3)
    return 2;
  std::ifstream in(argv[2], std::ios::binary);
  std::stringstream ss;
  ss << in.rdbuf();
  std::string all = ss.str();
  // format: repeated  "<ns>\n<len>\n<text>"
  std::vector<SourceUnit> units;
  size_t p = 0;
  while (p < all.size())
  {
    size_t e1 = all.find('\n', p);
    std::string ns = all.substr(p, e1 - p);
    size_t e2 = all.find('\n', e1 + 1);
    size_t len = strtoull(all.substr(e1 + 1, e2 - e1 - 1).c_str(), 0, 10);
    units.push_back({ns, all.substr(e2 + 1, len), YS_ADD_STRING});
    p = e2 + 1 + len;
  }
  Rules r;
  CompileResult cr = compile_units(units, r, gset_exts());
  if (cr.errors || cr.rc)
    return 3;
  uint8_t* d = nullptr;
  size_t n = 0;
  if (ys_rules_save_mem(r.r, &d, &n) != 0)
    return 4;
  printf("%016llx %zu\n", (unsigned long long) fnv1a(d, n), n);
  ys_free(d);
  return 0;
}

static std::string spawn_hash(const std::vector<SourceUnit>& units, bool no_aslr)
{
  char path[] = "/tmp/verif-c08-XXXXXX";
  int fd = mkstemp(path);
  if (fd < 0)
    return "";
  std::string all;
  for (auto& u : units) all += u.ns + "\n" + std::to_string(u.text.size()) + "\n" + u.text;
  (void) !write(fd, all.data(), all.size());
  close(fd);
  int pfd[2];
  if (pipe(pfd) != 0)
    return "";
  posix_spawn_file_actions_t fa;
  posix_spawn_file_actions_init(&fa);
  posix_spawn_file_actions_adddup2(&fa, pfd[1], 1);
  posix_spawn_file_actions_addclose(&fa, pfd[0]);
  std::vector<const char*> av;
  if (no_aslr)
  {
    av.push_back("setarch");
    av.push_back("x86_64");
    av.push_back("-R");
  }
  av.push_back(g_self.c_str());
  av.push_back("--aux");
  av.push_back(path);
  av.push_back(nullptr);
  pid_t pid;
  int rc = posix_spawnp(&pid, av[0], &fa, nullptr, (char* const*) av.data(), environ);
  posix_spawn_file_actions_destroy(&fa);
  close(pfd[1]);
  std::string out;
  if (rc == 0)
  {
    char buf[256];
    ssize_t k;
    while ((k = read(pfd[0], buf, sizeof buf)) > 0) out.append(buf, k);
    int st;
    waitpid(pid, &st, 0);
  }
  close(pfd[0]);
  unlink(path);
  return out;
}

struct C08Opts
{
  int load_mode = 0;
  std::vector<uint32_t> chunks;
  bool via_file = false;
  bool small_arena = false;  // the second compilation starts with 512-byte buffers
  int prefill = 0;  // via_file: 0 new file, 1 the path holds an older, longer compiled image, 2 unrelated longer content
  bool redefine = false;
  bool redefine_string = false;
  bool cross_process = false;
  bool no_aslr = false;
};

static std::string check_case(const GSet& gs, const std::vector<bytes>& bufs, const C08Opts& o, CaseInfo& ci,
                              const Src* srcp)
{
  std::vector<int> all;
  for (size_t i = 0; i < gs.rules.size(); i++) all.push_back((int) i);
  std::vector<SourceUnit> units = units_for(gs, all);
  std::string src;
  for (auto& u : units) src += "// namespace " + u.ns + "\n" + u.text;
  ci.desc = src;
  for (auto& b : bufs) ci.desc += "buffer[" + std::to_string(b.size()) + "] \"" + esc(b) + "\"\n";
  ci.desc += strf("load_mode=%d chunks=%zu file=%d redefine=%d/%d xproc=%d\n", o.load_mode, o.chunks.size(),
                  (int) o.via_file, (int) o.redefine, (int) o.redefine_string, (int) o.cross_process);
  ci.hash = hstr(ci.desc);
  if (srcp)
    checkpoint(*srcp, ci.desc);

  Rules R;
  CompileResult cr = compile_units(units, R, gs.exts);
  if (cr.errors || cr.rc)
  {
    if (compile_discardable(cr))
    {
      ci.discard = strf("constant/limit-rejected(%d)", cr.first_error);
      return "";
    }
    return "generated rule set rejected: " + cr.diag;
  }
  if (o.redefine)
  {
    // rules-level redefinition before saving: the new values belong to the image
    if (ys_rules_define(R.r, YS_EXT_INT, "xi", 9, 0, nullptr) != 0)
      return "rules-level integer redefinition failed";
    if (ys_rules_define(R.r, YS_EXT_FLOAT, "xf", 0, 0.25, nullptr) != 0)
      return "rules-level float redefinition failed";
    if (ys_rules_define(R.r, YS_EXT_BOOL, "xb", 0, 0, nullptr) != 0)
      return "rules-level boolean redefinition failed";
    if (o.redefine_string && ys_rules_define(R.r, YS_EXT_STR, "xs", 0, 0, "redefined value") != 0)
      return "rules-level string redefinition failed";
  }
  std::vector<std::string> before;
  for (auto& b : bufs)
  {
    before.push_back(scan_text(R.r, nullptr, b));
    if (before.back().find("\nR 46") != std::string::npos)
    {
      ci.discard = "too-many-fibers";
      return "";
    }
  }
  char* d0 = ys_rules_describe(R.r);
  std::string desc0 = d0;
  ys_free(d0);

  uint8_t* img = nullptr;
  size_t imglen = 0;
  int rc = ys_rules_save_mem(R.r, &img, &imglen);
  if (rc != 0)
    return strf("yr_rules_save_stream returned %d", rc);
  std::string image((char*) img, imglen);
  ys_free(img);
  // the original stays usable and unchanged after saving
  for (size_t i = 0; i < bufs.size(); i++)
    if (scan_text(R.r, nullptr, bufs[i]) != before[i])
      return strf("original rules scan buffer %zu differently after being saved", i);
  // saving twice gives the same bytes
  {
    uint8_t* img2 = nullptr;
    size_t l2 = 0;
    if (ys_rules_save_mem(R.r, &img2, &l2) != 0)
      return "second save failed";
    bool same = l2 == imglen && memcmp(img2, image.data(), l2) == 0;
    ys_free(img2);
    if (!same)
      return "saving the same rules twice gives different bytes";
  }
  // compiling the same sources again gives the same bytes - also when the compiler's buffers start
  // small and have to grow on the way (the image must not contain whatever the grown memory held)
  if (!o.redefine)
  {
    Rules R2;
    if (o.small_arena)
      ys_set_arena_initial_size(512);
    CompileResult c2 = compile_units(units, R2, gs.exts);
    ys_set_arena_initial_size(262144);
    if (c2.errors || c2.rc)
      return "second compilation of the same sources failed";
    uint8_t* img2 = nullptr;
    size_t l2 = 0;
    if (ys_rules_save_mem(R2.r, &img2, &l2) != 0)
      return "save of second compilation failed";
    bool same = l2 == imglen && memcmp(img2, image.data(), l2) == 0;
    ys_free(img2);
    if (!same)
      return strf("two compilations of the same sources in one process serialise to different bytes (%zu vs %zu)", imglen, l2);
  }
  // load
  Rules L;
  if (o.via_file)
  {
    char path[] = "/tmp/verif-c08f-XXXXXX";
    int fd = mkstemp(path);
    if (o.prefill)
    {
      // saving over an existing file is ordinary use: the path already holds something longer
      std::string old = o.prefill == 1 ? image + image.substr(image.size() > 96 ? image.size() - 96 : 0) : std::string(image.size() + 777, '\x5a');
      if (write(fd, old.data(), old.size()) != (ssize_t) old.size())
      {
        close(fd);
        unlink(path);
        return "harness: cannot prefill the temporary file";
      }
    }
    close(fd);
    rc = ys_rules_save_file(R.r, path);
    if (rc != 0)
    {
      unlink(path);
      return strf("yr_rules_save returned %d", rc);
    }
    std::ifstream in(path, std::ios::binary);
    std::stringstream ss;
    ss << in.rdbuf();
    if (ss.str() != image)
    {
      unlink(path);
      return "yr_rules_save (file) and yr_rules_save_stream write different bytes";
    }
    rc = ys_rules_load_file(path, &L.r);
    unlink(path);
  }
  else
    rc = ys_rules_load_mem((const uint8_t*) image.data(), image.size(), o.load_mode, o.chunks.data(),
                           (int) o.chunks.size(), &L.r);
  if (rc != 0 || !L.r)
    return strf("loading the saved rules returned %d", rc);
  for (size_t i = 0; i < bufs.size(); i++)
  {
    std::string t = scan_text(L.r, nullptr, bufs[i]);
    if (t != before[i])
      return strf("loaded rules scan buffer %zu differently:\n--- original\n%s--- loaded\n%s", i,
                  before[i].substr(0, 600).c_str(), t.substr(0, 600).c_str());
    int err = 0;
    ys_scanner* sc = ys_scanner_new(L.r, &err);
    if (!sc)
      return strf("scanner on loaded rules: %d", err);
    std::string t2 = scan_text(L.r, sc, bufs[i]);
    ys_scanner_free(sc);
    if (t2 != before[i])
      return strf("scanner over loaded rules scans buffer %zu differently", i);
  }
  char* d1 = ys_rules_describe(L.r);
  std::string desc1 = d1;
  ys_free(d1);
  if (desc0 != desc1)
    return "rules / tags / metas / strings / externals differ after loading:\n--- original\n" + desc0.substr(0, 800) +
           "--- loaded\n" + desc1.substr(0, 800);
  // a loaded rule set can itself be saved again, to the same bytes
  {
    uint8_t* img2 = nullptr;
    size_t l2 = 0;
    rc = ys_rules_save_mem(L.r, &img2, &l2);
    if (rc != 0)
      return strf("saving the loaded rules returned %d", rc);
    bool same = l2 == imglen && memcmp(img2, image.data(), l2) == 0;
    ys_free(img2);
    if (!same)
      return "saving the loaded rules gives bytes different from the image they were loaded from";
  }
  if (o.cross_process && !o.redefine)
  {
    std::string mine = strf("%016llx %zu\n", (unsigned long long) fnv1a(image.data(), image.size()), image.size());
    std::string other = spawn_hash(units, o.no_aslr);
    if (other.empty())
      ci.classes.push_back("cross-process-helper-failed");
    else if (other != mine)
      return "image compiled by another process differs: here " + mine + " there " + other;
    else
      ci.classes.push_back(o.no_aslr ? "cross-process(no-aslr)" : "cross-process(aslr)");
  }

  // classes
  std::set<int> kinds;
  bool chained = false, anymatch = false;
  for (auto& r : gs.rules)
    for (auto& st : r.strs)
    {
      kinds.insert(st.kind);
      if (st.kind == 1 && st.pat.k == Node::CONCAT)
        for (auto& c : st.pat.ch) chained = chained || (c.k == Node::JUMP && (c.hi < 0 || c.hi > 200));
    }
  for (auto& b : before) anymatch = anymatch || b.find("\nM ") != std::string::npos || b.compare(0, 2, "M ") == 0;
  int classes = (int) kinds.size() + chained;
  std::set<std::string> nss;
  bool imports = false, loops = false;
  for (auto& r : gs.rules)
  {
    nss.insert(r.ns);
    imports = imports || !r.imports.empty();
    loops = loops || src.find("for ") != std::string::npos;
  }
  classes += nss.size() > 1;
  classes += imports;
  classes += loops;
  ci.nontrivial = classes >= 3 && anymatch;
  ci.classes.push_back(strf("load-mode-%d%s%s", o.load_mode, o.via_file ? "-file" : "", o.prefill ? "-over-existing-file" : ""));
  if (o.redefine)
    ci.classes.push_back("redefined-externals-before-save");
  if (chained)
    ci.classes.push_back("chained-string");
  if (imports)
    ci.classes.push_back("imports");
  if (anymatch)
    ci.classes.push_back("some-rule-matches");
  return "";
}

std::string run_case(Src& s, CaseInfo& ci)
{
  GenOpts go;
  go.max_rules = 8;
  GSet gs = gen_ruleset(s, go);
  std::vector<bytes> bufs;
  size_t nbuf = s.range(1, 3);
  for (size_t i = 0; i < nbuf; i++) bufs.push_back(gen_set_buffer(s, gs));
  C08Opts o;
  o.load_mode = (int) s.weighted({50, 30, 20});
  size_t nch = o.load_mode ? s.range(0, 5) : 0;
  for (size_t i = 0; i < nch; i++) o.chunks.push_back((uint32_t) (s.coin(50) ? s.range(1, 16) : s.range(1, 5000)));
  o.small_arena = s.coin(30);
  o.via_file = s.coin(14);
  o.prefill = o.via_file ? (int) s.weighted({40, 35, 25}) : 0;
  o.redefine = s.coin(20);
  o.cross_process = s.coin(4);
  o.no_aslr = s.coin(40);
  return check_case(gs, bufs, o, ci, &s);
}


// Section sizes of a saved image: header (4 magic, 1 version, 1 number of sections) and one 12-byte entry
// {u64 offset, u32 size} per section.
static std::vector<uint32_t> image_sections(const std::string& img)
{
  std::vector<uint32_t> v;
  if (img.size() < 6)
    return v;
  unsigned n = (unsigned char) img[5];
  for (unsigned i = 0; i < n && 6 + 12 * (i + 1) <= img.size(); i++)
  {
    uint32_t sz;
    memcpy(&sz, img.data() + 6 + 12 * i + 8, 4);
    v.push_back(sz);
  }
  return v;
}

// A rule set padded (meta strings) so that the string-pool section of the saved image is exactly `target` bytes:
// section sizes at exact multiples of the 64 KiB / 4 KiB / 1 KiB units in which a reader or writer may work.
// The image goes through memory, a pipe fed in chunks and a real file (fread-backed), and must load and scan
// like the original every time.
static std::string sized_pool_case(CaseInfo& ci, uint32_t target, int delta)
{
  ci.desc = strf("rule set padded with meta strings until the string-pool section of the saved image is %u%+d bytes; "
                 "saved and loaded through memory, a chunked pipe and a file",
                 target, delta);
  uint32_t want = target + delta;
  std::vector<size_t> pads = {8};
  std::string image;
  Rules R;
  int pool = -1;
  auto source = [&]() {
    std::string s;
    for (size_t i = 0; i < pads.size(); i++)
      s += strf("rule pad_%zu { meta: m = \"%03zu", i, i) + std::string(pads[i], 'p') +
           strf("\" strings: $a = \"needle%zu\" condition: $a or filesize == %zu }\n", i % 3, i);
    return s;
  };
  auto build = [&](std::vector<uint32_t>& secs) -> std::string {
    ys_rules_free(R.r);
    R.r = nullptr;
    CompileResult cr = compile_simple(source(), R);
    if (cr.errors || cr.rc)
      return "padded rule set rejected: " + cr.diag;
    uint8_t* img = nullptr;
    size_t len = 0;
    int rc = ys_rules_save_mem(R.r, &img, &len);
    if (rc != 0)
      return strf("yr_rules_save_stream returned %d", rc);
    image.assign((const char*) img, len);
    ys_free(img);
    secs = image_sections(image);
    return "";
  };
  std::vector<uint32_t> s0, s1;
  std::string e = build(s0);
  if (!e.empty())
    return e;
  pads[0] = 9;
  e = build(s1);
  if (!e.empty())
    return e;
  for (size_t i = 0; i < s0.size() && i < s1.size(); i++)
    if (s1[i] == s0[i] + 1)
      pool = (int) i;
  if (pool < 0)
    return "harness: no section of the image grows by one byte with the meta string";
  std::vector<uint32_t> secs = s1;
  for (int iter = 0; iter < 400 && secs[pool] != want; iter++)
  {
    if (secs[pool] > want)
      return strf("harness: overshot the target section size (%u > %u)", secs[pool], want);
    uint32_t gap = want - secs[pool];
    if (gap > 4000 + 200)
      pads.push_back(3900);
    else if (pads.back() + gap < 7900)
      pads.back() += gap;
    else
      pads.push_back(8);
    e = build(secs);
    if (!e.empty())
      return e;
  }
  if (secs[pool] != want)
    return strf("harness: could not reach the target section size (%u, wanted %u)", secs[pool], want);
  std::vector<bytes> bufs = {"", "xx needle1 yy", "needle0needle2", bytes(pads.size() / 2, 'q')};
  std::vector<std::string> before;
  for (auto& b : bufs) before.push_back(scan_text(R.r, nullptr, b));
  static const uint32_t chunk_sets[][3] = {{65536, 0, 0}, {4096, 0, 0}, {1, 65535, 65536}, {1000, 0, 0}};
  for (int how = 0; how < 6; how++)
  {
    Rules L;
    int rc;
    const char* what;
    if (how == 0)
    {
      what = "an in-memory stream";
      rc = ys_rules_load_mem((const uint8_t*) image.data(), image.size(), 0, nullptr, 0, &L.r);
    }
    else if (how <= 4)
    {
      what = "a pipe read in chunks";
      int n = chunk_sets[how - 1][1] ? 3 : 1;
      rc = ys_rules_load_mem((const uint8_t*) image.data(), image.size(), 1, chunk_sets[how - 1], n, &L.r);
    }
    else
    {
      what = "a file (yr_rules_save / yr_rules_load)";
      char path[] = "/tmp/verif-c08s-XXXXXX";
      int fd = mkstemp(path);
      close(fd);
      rc = ys_rules_save_file(R.r, path);
      if (rc != 0)
      {
        unlink(path);
        return strf("yr_rules_save returned %d", rc);
      }
      std::ifstream in(path, std::ios::binary);
      std::stringstream ss;
      ss << in.rdbuf();
      if (ss.str() != image)
      {
        unlink(path);
        return "yr_rules_save (file) and yr_rules_save_stream write different bytes";
      }
      rc = ys_rules_load_file(path, &L.r);
      unlink(path);
    }
    ci.sub_evals++;
    if (rc != 0 || !L.r)
      return strf("a correctly written image whose section %d is %u bytes long is rejected (error %d) when loaded from %s", pool,
                  secs[pool], rc, what);
    for (size_t i = 0; i < bufs.size(); i++)
      if (scan_text(L.r, nullptr, bufs[i]) != before[i])
        return strf("rules loaded from %s (section %d = %u bytes) scan buffer %zu differently", what, pool, secs[pool], i);
  }
  ci.nontrivial = true;
  ci.classes.push_back("section-size-at-unit-multiple");
  return "";
}

std::vector<FixedCase> fixed_cases()
{
  std::vector<FixedCase> v;
  for (uint32_t target : {65536u, 131072u, 4096u * 5, 1024u * 7})
    for (int delta : {0, -1, 1})
      v.push_back({strf("pool-section-%u%+d", target, delta), [=](CaseInfo& ci) { return sized_pool_case(ci, target, delta); }, ""});
  {
    // known finding: a rules-level string redefinition makes the next save abort
    GSet gs;
    gs.exts = gset_exts();
    gs.pool = {"abc"};
    GRule r;
    r.name = "r0";
    Expr e;
    e.k = Expr::CMP;
    e.ty = TB;
    e.name = "==";
    Expr a;
    a.k = Expr::EXT;
    a.ty = TS;
    a.name = "xs";
    Expr b;
    b.k = Expr::STR_LIT;
    b.ty = TS;
    b.sval = "redefined value";
    e.ch = {a, b};
    r.cond = e;
    gs.rules.push_back(r);
    C08Opts o;
    o.redefine = o.redefine_string = true;
    FixedCase fc{"known-save-after-string-redefinition", [=](CaseInfo& ci) { return check_case(gs, {"x"}, o, ci, nullptr); }};
    fc.crash_sig = SIG_SAVE_AFTER_STRDEF;
    v.push_back(fc);
  }
  return v;
}
