// C14 - hash, math and string module functions compute their definitions.
#include "common.hpp"
#include <cmath>
#include <openssl/evp.h>

const char* PROP_ID = "C14";
void prop_init() { ys_set_arena_initial_size(1 << 20); }

// ------------------------------------------------------------- references
static std::string evp_hex(const EVP_MD* md, const bytes& d)
{
  unsigned char out[64];
  unsigned int n = 0;
  EVP_MD_CTX* c = EVP_MD_CTX_new();
  EVP_DigestInit_ex(c, md, nullptr);
  EVP_DigestUpdate(c, d.data(), d.size());
  EVP_DigestFinal_ex(c, out, &n);
  EVP_MD_CTX_free(c);
  return hexs(bytes((char*) out, n));
}
static uint32_t crc32_ref(const bytes& d)
{
  uint32_t crc = 0xffffffffu;  // bitwise, reflected polynomial 0xEDB88320 (ISO 3309 / zlib)
  for (unsigned char c : d)
  {
    crc ^= c;
    for (int k = 0; k < 8; k++) crc = (crc >> 1) ^ (0xEDB88320u & (0u - (crc & 1)));
  }
  return ~crc;
}
static uint32_t sum32_ref(const bytes& d)
{
  uint32_t s = 0;
  for (unsigned char c : d) s += c;
  return s;
}

struct Req
{
  std::string cond;  // boolean expression that must hold
  std::string what;
  bool nontrivial = false;
};

static std::string flit(long double v)
{
  // float literal the YARA lexer accepts: digits '.' digits
  char b[64];
  snprintf(b, sizeof b, "%.12Lf", v);
  return b;
}
static std::string near(const std::string& expr, long double v, long double rel)
{
  long double eps = std::fabs((double) v) * rel + 1e-9L;
  long double lo = v - eps, hi = v + eps;
  auto lit = [](long double x) { return x < 0 ? "(0.0 - " + flit(-x) + ")" : flit(x); };
  return "(" + expr + " >= " + lit(lo) + " and " + expr + " <= " + lit(hi) + ")";
}

// the addressed slice of B (clipped), or "undefined" (ok=false)
static bool slice(const bytes& B, int64_t o, int64_t l, bytes& out)
{
  if (o < 0 || l < 0 || (uint64_t) o >= B.size())
    return false;
  out = B.substr((size_t) o, (size_t) std::min<uint64_t>((uint64_t) l, B.size() - (uint64_t) o));
  return true;
}

static Req hash_req(Src& s, const bytes& B, int64_t o, int64_t l, int alg, bool string_form, const bytes& strarg)
{
  static const char* NAMES[] = {"md5", "sha1", "sha256", "crc32", "checksum32"};
  Req r;
  bytes d;
  std::string call;
  bool def;
  if (string_form)
  {
    d = strarg;
    def = true;
    call = strf("hash.%s(%s)", NAMES[alg], text_literal(strarg).c_str());
  }
  else
  {
    def = slice(B, o, l, d);
    std::string os = o < 0 ? strf("(0 - %lld)", (long long) -o) : strf("%lld", (long long) o);
    std::string ls = l < 0 ? strf("(0 - %lld)", (long long) -l) : strf("%lld", (long long) l);
    if (s.coin(15) && o >= 0 && (uint64_t) o <= B.size())
      os = strf("filesize - %lld", (long long) (B.size() - o));
    call = strf("hash.%s(%s, %s)", NAMES[alg], os.c_str(), ls.c_str());
  }
  r.what = call;
  if (!def)
  {
    r.cond = "not defined " + call;
    return r;
  }
  switch (alg)
  {
  case 0:
    r.cond = call + " == \"" + evp_hex(EVP_md5(), d) + "\"";
    break;
  case 1:
    r.cond = call + " == \"" + evp_hex(EVP_sha1(), d) + "\"";
    break;
  case 2:
    r.cond = call + " == \"" + evp_hex(EVP_sha256(), d) + "\"";
    break;
  case 3:
    r.cond = call + strf(" == %u", crc32_ref(d));
    break;
  default:
    r.cond = call + strf(" == %u", sum32_ref(d));
  }
  bool high = false;
  for (unsigned char c : d) high = high || c >= 0x80;
  r.nontrivial = !d.empty() && (string_form ? high : ((uint64_t) (o + l) >= B.size() || high));
  return r;
}

static Req math_req(Src& s, const bytes& B, int64_t o, int64_t l, int fn, bool string_form, const bytes& strarg)
{
  Req r;
  bytes d;
  bool def = string_form ? (d = strarg, true) : slice(B, o, l, d);
  std::string args = string_form ? text_literal(strarg) : strf("%lld, %lld", (long long) o, (long long) l);
  if (!string_form && (o < 0 || l < 0))
    args = strf("%s, %s", o < 0 ? strf("(0 - %lld)", (long long) -o).c_str() : strf("%lld", (long long) o).c_str(),
                l < 0 ? strf("(0 - %lld)", (long long) -l).c_str() : strf("%lld", (long long) l).c_str());
  size_t n = d.size();
  long double sum = 0, sumsq = 0;
  size_t cnt[256] = {0};
  for (unsigned char c : d)
  {
    sum += c;
    sumsq += (long double) c * c;
    cnt[c]++;
  }
  bool high = false;
  for (unsigned char c : d) high = high || c >= 0x80;
  r.nontrivial = n > 0 && (high || (!string_form && (uint64_t) (o + l) >= B.size()));
  switch (fn)
  {
  case 0:
  {  // entropy
    std::string call = "math.entropy(" + args + ")";
    r.what = call;
    if (!def || n == 0)
    {
      // an empty range has no distribution: undefined (range form) / 0 or undefined (string form) - not judged
      r.cond = def ? "true" : "not defined " + call;
      r.nontrivial = false;
      return r;
    }
    long double e = 0;
    for (int c = 0; c < 256; c++)
      if (cnt[c])
      {
        long double p = (long double) cnt[c] / n;
        e -= p * std::log2((double) p);
      }
    r.cond = near(call, e, 1e-6L);
    return r;
  }
  case 1:
  {  // mean
    std::string call = "math.mean(" + args + ")";
    r.what = call;
    if (!def || n == 0)
    {
      r.cond = def ? "true" : "not defined " + call;
      r.nontrivial = false;
      return r;
    }
    r.cond = near(call, sum / n, 1e-9L);
    return r;
  }
  case 2:
  {  // deviation from a given mean
    long double m = (long double) s.range(0, 255) + (s.coin(50) ? 0.5L : 0.0L);
    std::string call = "math.deviation(" + args + ", " + flit(m) + ")";
    r.what = call;
    if (!def || n == 0)
    {
      r.cond = def ? "true" : "not defined " + call;
      r.nontrivial = false;
      return r;
    }
    long double dv = 0;
    for (unsigned char c : d) dv += std::fabs((double) ((long double) c - m));
    r.cond = near(call, dv / n, 1e-9L);
    return r;
  }
  case 3:
  {  // count(byte, o, l)
    if (string_form)
      break;
    int b = d.empty() ? (int) s.range(0, 255) : (unsigned char) d[s.range(0, d.size() - 1)];
    std::string call = strf("math.count(%d, %s)", b, args.c_str());
    r.what = call;
    if (!def)
    {
      r.cond = "not defined " + call;
      return r;
    }
    r.cond = call + strf(" == %zu", cnt[b]);
    return r;
  }
  case 4:
  {  // percentage
    if (string_form)
      break;
    int b = d.empty() ? (int) s.range(0, 255) : (unsigned char) d[s.range(0, d.size() - 1)];
    std::string call = strf("math.percentage(%d, %s)", b, args.c_str());
    r.what = call;
    if (!def || n == 0)
    {
      r.cond = def ? "true" : "not defined " + call;
      r.nontrivial = false;
      return r;
    }
    r.cond = near(call, (long double) cnt[b] / n, 1e-5L);
    return r;
  }
  case 5:
  {  // mode: any most frequent byte
    if (string_form)
      break;
    std::string call = "math.mode(" + args + ")";
    r.what = call;
    if (!def || n == 0)
    {
      r.cond = def ? "true" : "not defined " + call;
      r.nontrivial = false;
      return r;
    }
    size_t best = 0;
    for (int c = 0; c < 256; c++) best = std::max(best, cnt[c]);
    std::string alts;
    for (int c = 0; c < 256; c++)
      if (cnt[c] == best)
        alts += (alts.empty() ? "" : " or ") + call + strf(" == %d", c);
    r.cond = "(" + alts + ")";
    return r;
  }
  case 6:
  {  // serial correlation (ent's definition, single contiguous buffer)
    std::string call = "math.serial_correlation(" + args + ")";
    r.what = call;
    if (!def || n == 0)
    {
      r.cond = def ? "true" : "not defined " + call;
      r.nontrivial = false;
      return r;
    }
    long double t1 = 0;
    for (size_t i = 0; i + 1 < n; i++) t1 += (long double) (unsigned char) d[i] * (unsigned char) d[i + 1];
    t1 += (long double) (unsigned char) d[n - 1] * (unsigned char) d[0];
    long double t2 = sum * sum, t3 = sumsq;
    long double scc = n * t3 - t2;
    if (scc == 0)
    {
      r.cond = near(call, -100000.0L, 1e-9L);  // ent's convention for a constant sequence
      r.nontrivial = false;
      r.cond = "true";
      return r;
    }
    scc = (n * t1 - t2) / scc;
    r.cond = near(call, scc, 1e-6L);
    return r;
  }
  default:
  {  // monte carlo pi
    std::string call = "math.monte_carlo_pi(" + args + ")";
    r.what = call;
    size_t groups = n / 6;
    if (!def || groups == 0)
    {
      r.cond = def ? "not defined " + call : "not defined " + call;
      r.nontrivial = false;
      return r;
    }
    long double incirc = std::pow(std::pow(256.0L, 3.0L) - 1, 2.0L);
    size_t in = 0;
    for (size_t g = 0; g < groups; g++)
    {
      long double x = 0, y = 0;
      for (int j = 0; j < 3; j++)
      {
        x = x * 256 + (unsigned char) d[g * 6 + j];
        y = y * 256 + (unsigned char) d[g * 6 + 3 + j];
      }
      if (x * x + y * y <= incirc)
        in++;
    }
    long double pi = 3.14159265358979323846L;
    long double mpi = 4.0L * in / groups;
    r.cond = near(call, std::fabs((double) ((mpi - pi) / pi)), 1e-9L);
    return r;
  }
  }
  r.cond = "true";
  r.what = "(none)";
  r.nontrivial = false;
  return r;
}

static Req conv_req(Src& s)
{
  Req r;
  switch (s.range(0, 6))
  {
  case 0:
  {
    int64_t a = (int64_t) s.range(0, 1000), b = (int64_t) s.range(0, 1000);
    r.cond = strf("math.max(%lld, %lld) == %lld and math.min(%lld, %lld) == %lld", (long long) a, (long long) b,
                  (long long) std::max(a, b), (long long) a, (long long) b, (long long) std::min(a, b));
    break;
  }
  case 1:
  {
    int64_t a = (int64_t) s.range(0, 100000) - 50000;
    r.cond = a < 0 ? strf("math.abs(0 - %lld) == %lld", (long long) -a, (long long) -a)
                   : strf("math.abs(%lld) == %lld", (long long) a, (long long) a);
    break;
  }
  case 2:
    r.cond = "math.to_number(filesize >= 0) == 1 and math.to_number(filesize < 0) == 0";
    break;
  case 3:
  {
    int64_t a = (int64_t) s.range(0, 1000000) - 500000;
    int base = (int) s.weighted({40, 30, 30});
    char buf[80];
    std::string arg = a < 0 ? strf("0 - %lld", (long long) -a) : strf("%lld", (long long) a);
    if (base == 0)
    {
      snprintf(buf, sizeof buf, "%lld", (long long) a);
      r.cond = "math.to_string(" + arg + ") == \"" + buf + "\" and math.to_string(" + arg + ", 10) == \"" + buf + "\"";
    }
    else if (base == 1)
    {
      snprintf(buf, sizeof buf, "%llx", (unsigned long long) a);
      r.cond = "math.to_string(" + arg + ", 16) == \"" + buf + "\"";
    }
    else
    {
      snprintf(buf, sizeof buf, "%llo", (unsigned long long) a);
      r.cond = "math.to_string(" + arg + ", 8) == \"" + buf + "\"";
    }
    break;
  }
  case 4:
  {
    double t = (double) s.range(0, 40) / 4, lo = (double) s.range(0, 40) / 4, hi = (double) s.range(0, 40) / 4;
    bool in = t >= lo && t <= hi;
    r.cond = std::string(in ? "" : "not ") + strf("math.in_range(%.2f, %.2f, %.2f)", t, lo, hi);
    break;
  }
  case 5:
  {
    // string.to_int: own numeral parser (sign, optional prefix, base, overflow, garbage)
    static const char* CASES[][3] = {
        {"1234", "", "1234"},      {"-10", "", "-10"},          {"+7", "", "7"},        {"0x1F", "", "31"},
        {"010", "", "8"},          {"10", "16", "16"},          {"ff", "16", "255"},    {"FF", "16", "255"},
        {"z", "36", "35"},         {"12", "2", "U"},            {"101", "2", "5"},      {"", "", "U"},
        {"abc", "", "U"},          {"12abc", "", "U"},          {"9223372036854775807", "", "9223372036854775807"},
        {"9223372036854775808", "", "U"}, {"-9223372036854775809", "", "U"}, {" 12", "", "12"}, {"12 ", "", "U"},
        {"0x", "", "U"},           {"12\\x00zz", "", "U"},      {"7", "37", "U"},       {"7", "1", "U"},
        {"-0x10", "0", "-16"},     {"0b101", "", "U"},
    };
    size_t i = s.range(0, sizeof(CASES) / sizeof(CASES[0]) - 1);
    std::string call = std::string("string.to_int(\"") + CASES[i][0] + "\"" + (CASES[i][1][0] ? std::string(", ") + CASES[i][1] : "") + ")";
    std::string exp = CASES[i][2];
    if (exp == "U")
      r.cond = "not defined " + call;
    else if (exp[0] == '-')
      r.cond = call + " == 0 - " + (exp == "-9223372036854775808" ? "9223372036854775807 - 1" : exp.substr(1));
    else
      r.cond = call + " == " + exp;
    r.what = call;
    r.nontrivial = true;
    break;
  }
  default:
  {
    bytes t;
    size_t n = s.range(0, 12);
    for (size_t i = 0; i < n; i++) t += (char) (s.coin(70) ? 'a' + s.range(0, 25) : s.byte());
    r.cond = strf("string.length(%s) == %zu", text_literal(t).c_str(), t.size());
    r.what = "string.length";
    r.nontrivial = n > 0;
  }
  }
  if (r.what.empty())
    r.what = r.cond;
  return r;
}

std::string run_case(Src& s, CaseInfo& ci)
{
  // buffer: small (ranges enumerated densely) or larger
  bytes B;
  bool small = s.coin(70);
  size_t n = small ? s.range(0, 24) : s.range(25, 5000);
  int style = (int) s.weighted({40, 30, 30});
  for (size_t i = 0; i < n; i++)
  {
    unsigned char c;
    if (style == 0)
      c = s.byte();
    else if (style == 1)
      c = (unsigned char) (s.coin(60) ? 0x80 + s.range(0, 127) : (s.coin(50) ? 0x00 : 0xff));
    else
      c = (unsigned char) ('a' + s.range(0, 3));
    B += (char) c;
  }
  // block partition (contiguous); >1 block only for hashes and simple statistics
  int nblocks = small ? 1 : (int) s.weighted({60, 20, 20}) + 1;
  std::vector<uint32_t> sizes;
  {
    size_t rest = B.size();
    for (int b = 0; b < nblocks; b++)
    {
      // blocks are non-empty (an empty block in the middle of a range is not a
      // "contiguous" layout the modules are documented to handle)
      size_t left = (size_t) (nblocks - 1 - b);
      size_t sz = b + 1 == nblocks ? rest : (rest > left ? (size_t) s.range(1, rest - left) : rest);
      sizes.push_back((uint32_t) sz);
      rest -= sz;
    }
    while (sizes.size() > 1 && sizes.back() == 0) sizes.pop_back();
    nblocks = (int) sizes.size();
  }
  size_t nreq = s.range(8, 60);
  std::vector<Req> reqs;
  std::vector<std::pair<int64_t, int64_t>> recent;
  for (size_t i = 0; i < nreq; i++)
  {
    int64_t o, l;
    if (!recent.empty() && s.coin(30))
    {
      // same range again (possibly through another algorithm): the digest cache
      auto pr = recent[s.range(0, recent.size() - 1)];
      o = pr.first;
      l = pr.second;
    }
    else
    {
      int64_t sz = (int64_t) B.size();
      switch (s.weighted({40, 15, 15, 10, 10, 10}))
      {
      case 0:
        o = (int64_t) s.range(0, (uint64_t) sz + 4) - 2;
        l = (int64_t) s.range(0, (uint64_t) sz + 5) - 2;
        break;
      case 1:
        o = 0;
        l = sz;
        break;
      case 2:
        o = (int64_t) s.range(0, (uint64_t) sz);
        l = sz - o;
        break;
      case 3:
        o = (int64_t) s.range(0, (uint64_t) sz);
        l = sz - o + (int64_t) s.range(0, 3);
        break;
      case 4:
        o = sz - 1;
        l = (int64_t) s.range(0, 2);
        break;
      default:
        o = sz + (int64_t) s.range(0, 1);
        l = (int64_t) s.range(0, 3);
      }
      recent.push_back({o, l});
    }
    if (nblocks > 1 && l == 0)
    {
      // known finding (zero-length range at a block boundary): excluded by construction
      l = 1;
      ci.classes.push_back("excluded:zero-length-range-in-multi-block-scan");
    }
    int fam = (int) s.weighted({45, 35, 20});
    bytes strarg;
    bool sf = s.coin(15);
    if (sf)
    {
      size_t sl = s.range(0, 12);
      for (size_t k = 0; k < sl; k++) strarg += (char) (s.coin(50) ? s.byte() : 'a' + s.range(0, 5));
    }
    if (fam == 0)
      reqs.push_back(hash_req(s, B, o, l, (int) s.range(0, 4), sf, strarg));
    else if (fam == 1)
    {
      int fn = (int) s.range(0, 7);
      if (nblocks > 1 && fn >= 6)
        fn = 1;  // serial correlation / monte carlo are per-buffer definitions
      reqs.push_back(math_req(s, B, o, l, fn, sf && fn != 3 && fn != 4 && fn != 5, strarg));
    }
    else
      reqs.push_back(conv_req(s));
  }
  std::string src = "import \"hash\"\nimport \"math\"\nimport \"string\"\n";
  for (size_t i = 0; i < reqs.size(); i++) src += strf("rule q%zu { condition: %s }\n", i, reqs[i].cond.c_str());
  ci.desc = src + strf("buffer[%zu] %s\nblocks:", B.size(), hexs(B.substr(0, 200)).c_str());
  for (auto z : sizes) ci.desc += strf(" %u", z);
  ci.desc += "\n";
  ci.hash = hstr(ci.desc);
  checkpoint(s, ci.desc);

  Rules R;
  CompileResult cr = compile_simple(src, R);
  if (cr.errors || cr.rc)
    return "request rules rejected: " + cr.diag;
  ys_scan_opts o;
  memset(&o, 0, sizeof o);
  o.entry = nblocks > 1 ? YS_SCAN_BLOCKS : YS_SCAN_MEM;
  o.nblocks = nblocks > 1 ? nblocks : 0;
  o.block_sizes = sizes.data();
  char* t = nullptr;
  int rc = ys_scan(R.r, nullptr, (const uint8_t*) B.data(), B.size(), &o, &t);
  Trace tr = parse_trace(t);
  ys_free(t);
  if (rc != 0)
    return strf("scan returned %d", rc);
  ci.sub_evals = reqs.size();
  int nt = 0;
  for (size_t i = 0; i < reqs.size(); i++)
  {
    const MsgRec* m = tr.rule(strf("default:q%zu", i));
    if (!m || m->kind != 'M')
      return strf("request %zu does not hold: %s   [%s, buffer of %zu bytes in %d block(s)]", i, reqs[i].cond.c_str(),
                  reqs[i].what.c_str(), B.size(), nblocks);
    nt += reqs[i].nontrivial;
  }
  ci.nontrivial = nt >= 3;
  ci.classes.push_back(small ? "small-buffer" : "large-buffer");
  if (nblocks > 1)
    ci.classes.push_back("multi-block");
  return "";
}

static const char* SIG_ZERO_LEN_BLOCK = "C14:zero-length-range-at-start-of-later-block:undefined-instead-of-empty-digest";

std::vector<FixedCase> fixed_cases()
{
  std::vector<FixedCase> v;
  v.push_back({"known-zero-length-range-at-block-boundary", [](CaseInfo& ci) -> std::string {
                 // hash.md5(4, 0) on 8 bytes: defined (digest of the empty string) in one block,
                 // must be the same when the data arrives as blocks 4 + 4
                 std::string src = "import \"hash\"\nrule q { condition: hash.md5(4, 0) == \"d41d8cd98f00b204e9800998ecf8427e\" }\n";
                 ci.desc = src + "buffer abcdefgh as one block and as blocks 4+4\n";
                 Rules R;
                 CompileResult cr = compile_simple(src, R);
                 if (cr.errors || cr.rc)
                   return "rule rejected";
                 bytes B = "abcdefgh";
                 for (int multi = 0; multi < 2; multi++)
                 {
                   ys_scan_opts o;
                   memset(&o, 0, sizeof o);
                   uint32_t sizes[2] = {4, 4};
                   o.entry = multi ? YS_SCAN_BLOCKS : YS_SCAN_MEM;
                   o.nblocks = multi ? 2 : 0;
                   o.block_sizes = sizes;
                   char* t = nullptr;
                   ys_scan(R.r, nullptr, (const uint8_t*) B.data(), B.size(), &o, &t);
                   Trace tr = parse_trace(t);
                   ys_free(t);
                   const MsgRec* m = tr.rule("default:q");
                   if (!m || m->kind != 'M')
                   {
                     if (multi && is_known(SIG_ZERO_LEN_BLOCK))
                     {
                       ci.known.push_back(SIG_ZERO_LEN_BLOCK);
                       continue;
                     }
                     return std::string("hash.md5(4, 0) is not the empty-string digest ") + (multi ? "when the data is two blocks" : "in one block");
                   }
                 }
                 return "";
               }});
  return v;
}
