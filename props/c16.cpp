// C16 - allocation failure anywhere is reported, never suffered.
// Fault enumeration: for every scenario and every k, the k-th allocation made by
// the code under test fails (alone, and together with all later ones); each fault
// point runs in a forked child under ASan + LeakSanitizer.
// Linked with -Wl,--wrap=malloc,--wrap=calloc,--wrap=realloc,--wrap=strdup,--wrap=strndup.
#include "rulesetgen.hpp"
#include "samples.hpp"
#include <errno.h>
#include <execinfo.h>
#include <sys/wait.h>

const char* PROP_ID = "C16";

// ------------------------------------------------------------- interposition
extern "C" {
void* __real_malloc(size_t);
void* __real_calloc(size_t, size_t);
void* __real_realloc(void*, size_t);
char* __real_strdup(const char*);
char* __real_strndup(const char*, size_t);
void __sanitizer_symbolize_pc(void* pc, const char* fmt, char* out, size_t out_size);
}
static volatile int g_armed = 0, g_suspended = 0;
static volatile long g_count = 0, g_fail_at = 0;
static volatile int g_fail_from = 0;  // 1: every allocation from g_fail_at on fails
static void* g_fail_pcs[8];
static volatile int g_failed_once = 0;
static int g_pc_pipe = -1;
static int g_record_fd = -1;  // counting run: the call site of every allocation is written here

extern "C" void ys_fault_suspend(void) { g_suspended++; }
extern "C" void ys_fault_resume(void) { g_suspended--; }

static inline bool should_fail(void* ra0)
{
  if (!g_armed || g_suspended)
    return false;
  long n = ++g_count;
  if (g_record_fd >= 0)
  {
    void* bt[6] = {0, 0, 0, 0, 0, 0};
    g_suspended++;
    backtrace(bt, 6);  // [0] should_fail [1] __wrap_* [2..] callers
    g_suspended--;
    (void) !write(g_record_fd, (void*) (bt + 2), sizeof(void*) * 3);
  }
  if (g_fail_at == 0)
    return false;
  bool f = g_fail_from ? n >= g_fail_at : n == g_fail_at;
  if (f && !g_failed_once)
  {
    g_failed_once = 1;
    // remember who asked (return addresses; symbolised by the parent)
    void* bt[8] = {0, 0, 0, 0, 0, 0, 0, 0};
    g_suspended++;
    backtrace(bt, 8);
    g_suspended--;
    (void) ra0;
    for (int i = 0; i < 5; i++) g_fail_pcs[i] = bt[i + 2];
    if (g_pc_pipe >= 0)
      (void) !write(g_pc_pipe, (void*) g_fail_pcs, sizeof(void*) * 5);
  }
  if (f)
    errno = ENOMEM;
  return f;
}
extern "C" void* __wrap_malloc(size_t n) { return should_fail(__builtin_return_address(0)) ? nullptr : __real_malloc(n); }
extern "C" void* __wrap_calloc(size_t a, size_t b) { return should_fail(__builtin_return_address(0)) ? nullptr : __real_calloc(a, b); }
extern "C" void* __wrap_realloc(void* p, size_t n) { return should_fail(__builtin_return_address(0)) ? nullptr : __real_realloc(p, n); }
extern "C" char* __wrap_strdup(const char* s) { return should_fail(__builtin_return_address(0)) ? nullptr : __real_strdup(s); }
extern "C" char* __wrap_strndup(const char* s, size_t n) { return should_fail(__builtin_return_address(0)) ? nullptr : __real_strndup(s, n); }

void prop_init()
{
  void* warm[4];
  backtrace(warm, 4);  // first use loads the unwinder (allocates): do it before any fault is armed
  ys_set_arena_initial_size(16384);
  g_samples.load();
}

// ------------------------------------------------------------------ scenarios
// A scenario performs API calls through the shim.  It returns "" when everything
// it observed is acceptable under the property: every call either succeeded (then
// results must equal the fault-free ones) or failed with ERROR_INSUFFICIENT_MEMORY
// / a compile error; everything that was created is destroyed.
struct Scenario
{
  std::string name;
  std::string rules;     // rule text ("" = generated elsewhere)
  std::vector<std::pair<std::string, std::string>> includes;
  bytes data;
  int add_how = YS_ADD_STRING;
  bool save_load = false, via_file = false, scanner = false, define = false, atom_table = false;
  int scan_entry = YS_SCAN_MEM;
  int nblocks = 0;
  bool init_cycle = false;
};

static bool mem_error(int rc) { return rc == 1 /*ERROR_INSUFFICIENT_MEMORY*/; }

// runs the scenario; `ref` is the fault-free trace ("" while recording it)
static std::string run_scenario(const Scenario& sc, std::string& trace_out)
{
  static uint8_t table[] = {'a', 'b', 'c', 'd', 10, 'b', 'c', 'd', 'e', 200};
  if (sc.init_cycle)
  {
    int rc = ys_finalize();
    if (rc != 0)
      return strf("yr_finalize returned %d", rc);
    rc = ys_initialize();
    if (rc != 0)
    {
      if (!mem_error(rc))
        return strf("yr_initialize returned %d", rc);
      // the library must be initialisable again once memory is back
      g_armed = 0;
      rc = ys_initialize();
      if (rc != 0)
        return strf("yr_initialize fails (%d) after an earlier allocation failure in it", rc);
      return "";
    }
  }
  int err = 0;
  ys_compiler* c = ys_compiler_new(&err);
  if (!c)
    return mem_error(err) ? "" : strf("yr_compiler_create returned %d", err);
  std::vector<const char*> names, contents;
  for (auto& i : sc.includes)
  {
    names.push_back(i.first.c_str());
    contents.push_back(i.second.c_str());
  }
  if (!names.empty())
    ys_compiler_set_includes(c, (int) names.size(), names.data(), contents.data());
  if (sc.atom_table)
    ys_compiler_set_atom_table(c, table, 2, 0);
  int rc = 0;
  for (auto& e : gset_exts())
  {
    rc = ys_compiler_define(c, e.type, e.id.c_str(), e.i, e.f, e.s.c_str());
    if (rc != 0)
    {
      ys_compiler_free(c);
      return mem_error(rc) ? "" : strf("yr_compiler_define_*_variable returned %d", rc);
    }
  }
  int nerr = ys_compiler_add(c, sc.add_how, sc.rules.c_str(), sc.rules.size(), nullptr);
  if (nerr != 0)
  {
    ys_compiler_free(c);
    if (nerr > 0)
      return "";  // the call reported errors (how they are diagnosed is C07's subject)
    return strf("yr_compiler_add_* returned %d", nerr);
  }
  ys_rules* R = nullptr;
  rc = ys_compiler_get_rules(c, &R);
  ys_compiler_free(c);
  if (rc != 0)
    return mem_error(rc) ? "" : strf("yr_compiler_get_rules returned %d", rc);
  std::string trace;
  ys_rules* use = R;
  ys_rules* L = nullptr;
  std::string fail;
  if (sc.define)
  {
    rc = ys_rules_define(R, YS_EXT_INT, "xi", 8, 0, nullptr);
    if (rc == 0)
      rc = ys_rules_define(R, YS_EXT_FLOAT, "xf", 0, 1.25, nullptr);
    if (rc != 0 && !mem_error(rc))
      fail = strf("yr_rules_define_*_variable returned %d", rc);
  }
  if (fail.empty() && sc.save_load)
  {
    uint8_t* img = nullptr;
    size_t len = 0;
    if (sc.via_file)
    {
      char path[] = "/tmp/verif-c16-XXXXXX";
      int fd = mkstemp(path);
      close(fd);
      rc = ys_rules_save_file(R, path);
      if (rc == 0)
        rc = ys_rules_load_file(path, &L);
      unlink(path);
    }
    else
    {
      rc = ys_rules_save_mem(R, &img, &len);
      if (rc == 0)
        rc = ys_rules_load_mem(img, len, 0, nullptr, 0, &L);
      ys_free(img);
    }
    if (rc != 0)
    {
      if (!mem_error(rc) && rc != 58 /*ERROR_WRITING_FILE: stream write refused*/)
        fail = strf("save/load returned %d", rc);
      if (L)
        fail = "load returned an error and a rule set";
    }
    else
      use = L;
  }
  if (fail.empty() && (rc == 0 || !sc.save_load))
  {
    ys_scanner* scn = nullptr;
    bool skip = false;
    if (sc.scanner)
    {
      scn = ys_scanner_new(use, &err);
      if (!scn)
      {
        if (!mem_error(err))
          fail = strf("yr_scanner_create returned %d", err);
        skip = true;
      }
      else
      {
        rc = ys_scanner_define(scn, YS_EXT_STR, "xs", 0, 0, "abcdef");
        if (rc == 0)
          rc = ys_scanner_define(scn, YS_EXT_STR, "xs", 0, 0, "abc");
        if (rc == 0)
          rc = ys_scanner_define(scn, YS_EXT_INT, "xi", 7, 0, nullptr);
        if (rc != 0)
        {
          if (!mem_error(rc))
            fail = strf("yr_scanner_define_*_variable returned %d", rc);
          skip = true;
        }
      }
    }
    if (!skip)
    {
      ys_scan_opts o;
      memset(&o, 0, sizeof o);
      o.entry = sc.scan_entry;
      o.with_strings = 1;
      uint32_t sizes[3] = {(uint32_t) (sc.data.size() / 3), (uint32_t) (sc.data.size() / 3),
                           (uint32_t) (sc.data.size() - 2 * (sc.data.size() / 3))};
      if (sc.scan_entry == YS_SCAN_BLOCKS && sc.nblocks == 3)
      {
        o.nblocks = 3;
        o.block_sizes = sizes;
      }
      char* t = nullptr;
      rc = ys_scan(use, scn, (const uint8_t*) sc.data.data(), sc.data.size(), &o, &t);
      trace = t;
      ys_free(t);
      if (rc != 0 && !mem_error(rc) && rc != 4 /*COULD_NOT_MAP_FILE under memory pressure*/ && rc != 3)
        fail = strf("scan returned %d", rc);
      else if (rc == 0 && !sc.define && !trace_out.empty() && trace != trace_out)
        fail = "scan succeeded under an allocation failure but its results differ from the fault-free scan:\n" + trace.substr(0, 800);
    }
    if (scn)
      ys_scanner_free(scn);
  }
  if (L)
    ys_rules_free(L);
  ys_rules_free(R);
  if (trace_out.empty())
    trace_out = trace;
  return fail;
}

static const char* CANARY = "rule c { strings: $a = \"canary\" $r = /c.n+a/ condition: all of them }\n";

struct PointResult
{
  char kind = 'o';  // o ok, c crash, l leak, w wrong result / unexpected error, u unusable afterwards
  std::string detail;
  void* pcs[5] = {0, 0, 0, 0, 0};
};

static PointResult run_point(const Scenario& sc, long k, int from, const std::string& ref)
{
  PointResult pr;
  int pfd[2], ppc[2];
  if (pipe(pfd) != 0 || pipe(ppc) != 0)
    return pr;
  fflush(stdout);
  pid_t pid = fork();
  if (pid == 0)
  {
    close(pfd[0]);
    close(ppc[0]);
    g_pc_pipe = ppc[1];
    std::string tr = ref;
    g_count = 0;
    g_fail_at = k;
    g_fail_from = from;
    g_failed_once = 0;
    g_armed = 1;
    std::string msg = run_scenario(sc, tr);
    g_armed = 0;
    char kind = 'o';
    if (!msg.empty())
      kind = 'w';
    else if (__lsan_do_recoverable_leak_check && __lsan_do_recoverable_leak_check())
    {
      kind = 'l';
      msg = "LeakSanitizer: memory allocated by the library is unreachable after the failed operation";
    }
    else
    {
      // the library must remain usable
      Rules R;
      CompileResult cr = compile_simple(CANARY, R);
      std::string raw;
      if (cr.errors || cr.rc)
        kind = 'u', msg = "canary compilation fails after the fault: " + cr.diag;
      else
      {
        scan_simple(R.r, "a canary sings", 0, true, &raw);
        if (raw.find("M default:c") == std::string::npos)
          kind = 'u', msg = "canary scan gives a wrong result after the fault";
      }
    }
    std::string out(1, kind);
    out += msg.substr(0, 1500);
    (void) !write(pfd[1], out.data(), out.size());
    _exit(0);
  }
  close(pfd[1]);
  close(ppc[1]);
  std::string out;
  char buf[2048];
  ssize_t n;
  while ((n = read(pfd[0], buf, sizeof buf)) > 0) out.append(buf, n);
  close(pfd[0]);
  void* pcs[5];
  if (read(ppc[0], pcs, sizeof pcs) == (ssize_t) sizeof pcs)
    memcpy(pr.pcs, pcs, sizeof pcs);
  close(ppc[0]);
  int st = 0;
  waitpid(pid, &st, 0);
  if (out.empty() || !WIFEXITED(st) || WEXITSTATUS(st) != 0)
  {
    pr.kind = 'c';
    pr.detail = strf("child died (wait status 0x%x): crash, assertion or sanitizer report", st);
  }
  else
  {
    pr.kind = out[0];
    pr.detail = out.substr(1);
  }
  return pr;
}

static std::string site_of(void* const* pcs)
{
  // first libyara frames above the allocator wrappers
  std::string sig;
  int taken = 0;
  for (int i = 0; i < 5 && taken < 2; i++)
  {
    if (!pcs[i])
      continue;
    char buf[256];
    buf[0] = 0;
    __sanitizer_symbolize_pc((char*) pcs[i] - 1, "%f", buf, sizeof buf);
    std::string f = buf;
    if (f.empty() || f == "<null>" || f.find("yr_malloc") == 0 || f.find("yr_calloc") == 0 || f.find("yr_realloc") == 0 ||
        f.find("yr_strdup") == 0 || f.find("yr_strndup") == 0 || f.find("__wrap_") == 0)
      continue;
    sig += (taken ? "<" : "") + f;
    taken++;
  }
  return sig.empty() ? "?" : sig;
}

static long count_allocs(const Scenario& sc, std::string& ref, std::vector<uint64_t>* sites = nullptr)
{
  // fault-free run in a child (records the reference trace, the allocation count
  // and the call site of every allocation)
  int pfd[2], psite[2];
  if (pipe(pfd) != 0 || pipe(psite) != 0)
    return -1;
  char spath[] = "/tmp/verif-c16s-XXXXXX";
  int sfd = mkstemp(spath);
  pid_t pid = fork();
  if (pid == 0)
  {
    std::string tr;
    g_count = 0;
    g_fail_at = 0;
    g_record_fd = sfd;
    g_armed = 1;
    std::string msg = run_scenario(sc, tr);
    g_armed = 0;
    long n = msg.empty() ? g_count : -2;
    std::string out = strf("%ld\n", n) + (msg.empty() ? tr : msg);
    (void) !write(pfd[1], out.data(), out.size());
    _exit(0);
  }
  close(pfd[1]);
  close(psite[0]);
  close(psite[1]);
  std::string out;
  char buf[4096];
  ssize_t n;
  while ((n = read(pfd[0], buf, sizeof buf)) > 0) out.append(buf, n);
  close(pfd[0]);
  int st;
  waitpid(pid, &st, 0);
  if (sites)
  {
    lseek(sfd, 0, SEEK_SET);
    void* pcs[3];
    while (read(sfd, pcs, sizeof pcs) == (ssize_t) sizeof pcs) sites->push_back(fnv1a(pcs, sizeof pcs));
  }
  close(sfd);
  unlink(spath);
  if (out.empty())
    return -1;
  long cnt = atol(out.c_str());
  ref = out.substr(out.find('\n') + 1);
  return cnt;
}

static std::vector<Scenario> fixed_scenarios()
{
  std::vector<Scenario> v;
  auto mk = [&](const std::string& name, const std::string& rules, const bytes& data) {
    Scenario s;
    s.name = name;
    s.rules = rules;
    s.data = data;
    v.push_back(s);
    return &v.back();
  };
  bytes text = "xx abc hello abcabc \x01\x02 canary ab0cd AbC a\0b\0c\0 ZZ";
  mk("init-finalize", "rule a { condition: true }\n", "x")->init_cycle = true;
  mk("text-strings", "rule a { strings: $a = \"abc\" $b = \"hello\" wide ascii nocase $c = \"ab\" fullword xor(1-3) $d = \"canary\" base64 "
                     "condition: any of them and #a > 1 }\n", text);
  mk("base64-wide", "rule a { strings: $d = \"canary\" wide base64 base64wide $e = \"hello\" ascii wide base64wide condition: any of them }\n", text);
  {
    // a hex string of 1100 tokens with one wildcard: the atom extractor's work stack (1024 entries) has to grow
    std::string hx;
    for (int i = 0; i < 1100; i++) hx += i == 700 ? "?? " : strf("%02X ", 0x41 + i % 23);
    mk("long-hex-string", "rule a { strings: $h = { " + hx + "} condition: $h }\n", text);
  }
  mk("hex-and-regexp", "rule a { strings: $h = { 61 62 ?? 64 [1-4] ( 65 | 66 67 ) } $j = { 61 62 63 [300-400] 64 } $r = /ab+c{1,3}(d|e)?/ $q = /h.l+o/i wide $c = /a[a-c]+c|[^x]lo\\b/ "
                       "condition: $h or $j or $r or #q == 1 }\n", text + bytes(350, 'z') + "d");
  mk("conditions", "rule a { strings: $a = \"abc\" $b = \"hello\" condition: for any of them : ($ at 3 or # > 1) and for all i in (1..#a) : "
                   "(@a[i] >= 0) and 2 of them in (0..100) and \"abc\" matches /a.c/ and xs contains \"b\" and xi == 7 and uint16(0) > 0 }\n"
                   "private rule p { condition: filesize > 5 } global rule g { condition: p } rule q : t1 t2 { meta: m = \"v\" n = 3 condition: a and g }\n", text)
      ->scanner = true;
  {
    Scenario* s = mk("includes-and-namespaces", "include \"inc1\"\nrule top { condition: inc_rule }\n", text);
    s->includes = {{"inc1", "include \"inc2\"\nrule inc_rule { strings: $a = \"abc\" condition: $a and deep }\n"},
                   {"inc2", "rule deep { condition: filesize > 0 }\n"}};
    s->add_how = YS_ADD_BYTES;
  }
  {
    Scenario* s = mk("modules-pe", "import \"pe\"\nimport \"hash\"\nimport \"math\"\nimport \"dotnet\"\nrule a { condition: pe.is_pe and pe.number_of_sections > 0 and "
                                   "for any s in pe.sections : (s.name != \"\") and pe.imphash() != \"\" and hash.md5(0, filesize) != \"\" and "
                                   "math.entropy(0, filesize) > 0.0 and (pe.imports(\"kernel32.dll\") or true) and not dotnet.is_dotnet }\n",
                     g_samples.pe);
    s->add_how = YS_ADD_FILE;
    s->scan_entry = YS_SCAN_FILE;
  }
  {
    Scenario* s = mk("modules-elf-macho-dex", "import \"elf\"\nimport \"macho\"\nimport \"dex\"\nimport \"string\"\nimport \"time\"\nimport \"console\"\n"
                                              "rule a { condition: elf.number_of_sections > 0 and for any s in elf.sections : (s.name contains \".\") and "
                                              "elf.telfhash() != \"\" and not defined macho.magic and not defined dex.header.magic and "
                                              "string.to_int(\"12\") == 12 and time.now() > 0 and console.log(\"x\") }\n",
                     g_samples.elf);
    s->add_how = YS_ADD_FD;
    s->scan_entry = YS_SCAN_FD;
  }
  mk("modules-tests", "import \"tests\"\nrule a { condition: tests.constants.one == 1 and tests.string_dict[\"foo\"] == \"foo\" and "
                      "tests.struct_array[1].i == 1 and tests.integer_array[256] == 256 and tests.string_array[3] contains \"bar\" and "
                      "tests.struct_dict[\"foo\"].i == 1 and tests.isum(1, 2) == 3 and tests.length(\"ab\") == 2 and tests.empty() == \"\" and "
                      "tests.match(/fo+/, \"xfoo\") == 3 and for any k, v in tests.string_dict : (k == v) }\n", text);
  {
    Scenario* s = mk("save-load-stream", "rule a { strings: $a = \"abc\" $r = /ab+c/ condition: $a and $r and xs == \"abc\" }\n", text);
    s->save_load = true;
    s->scanner = true;
  }
  {
    Scenario* s = mk("save-load-file-and-define", "rule a { strings: $a = \"abc\" condition: $a and xi == 8 and xf < 2.0 }\n", text);
    s->save_load = s->via_file = true;
    s->define = true;
  }
  {
    Scenario* s = mk("blocks-and-atom-table", "rule a { strings: $a = \"abcd\" $b = \"bcde\" condition: any of them and filesize > 0 }\n",
                     bytes("00abcde11") + text + "abcde");
    s->scan_entry = YS_SCAN_BLOCKS;
    s->nblocks = 3;
    s->atom_table = true;
    s->scanner = true;
  }
  return v;
}

// evaluates every fault point of a scenario; returns the first unknown failure
static std::string enumerate(const Scenario& sc, CaseInfo& ci)
{
  std::string ref;
  std::vector<uint64_t> sites;
  long n = count_allocs(sc, ref, &sites);
  if (n == -2)
    return "scenario `" + sc.name + "` fails without any injected fault: " + ref.substr(0, 600);
  if (n <= 0)
    return "scenario `" + sc.name + "`: could not count allocations";
  // which k to run: all of them (thorough tier, or small scenarios); in the quick
  // tier allocations made from the same call site (same three return addresses)
  // are represented by their first, middle and last occurrence
  std::vector<long> ks;
  bool all = g_tier == 1 || n <= 150 || (long) sites.size() != n;
  if (all)
    for (long k = 1; k <= n; k++) ks.push_back(k);
  else
  {
    std::map<uint64_t, std::vector<long>> by_site;
    for (long k = 1; k <= n; k++) by_site[sites[k - 1]].push_back(k);
    std::set<long> pick;
    for (auto& kv : by_site)
    {
      pick.insert(kv.second.front());
      pick.insert(kv.second[kv.second.size() / 2]);
      pick.insert(kv.second.back());
    }
    ks.assign(pick.begin(), pick.end());
  }
  std::string failure;
  std::map<std::string, int> seen_sigs;
  long bad = 0;
  for (int from = 0; from < 2; from++)
    for (long k : ks)
    {
      PointResult pr = run_point(sc, k, from, ref);
      ci.sub_evals++;
      std::string site = site_of(pr.pcs);
      // a distinct non-trivial unit: (scenario, allocation call site)
      if (g_stats.nontrivial.insert(hstr(sc.name + "|" + site)).second)
      {
        uint64_t nn = g_stats.nontrivial.size();
        if (g_stats.samples.size() < 3 || ((nn & (nn - 1)) == 0 && g_stats.samples.size() < 8))
          g_stats.samples.push_back(strf("scenario `%s`: allocation #%ld of %ld%s fails, requested by %s -> %s", sc.name.c_str(), k, n,
                                         from ? " (and every later one)" : "", site.c_str(),
                                         pr.kind == 'o' ? "handled: error returned or result unchanged, no crash, no leak, canary compile+scan fine"
                                         : pr.kind == 'c' ? "crash" : pr.kind == 'l' ? "leak" : pr.kind == 'u' ? "unusable afterwards" : "wrong result"));
      }
      if (pr.kind == 'o')
        continue;
      bad++;
      std::string kind = pr.kind == 'c' ? "crash" : pr.kind == 'l' ? "leak" : pr.kind == 'u' ? "unusable-afterwards" : "wrong-result";
      std::string sig = "C16:" + kind + ":" + site;
      if (getenv("VERIF_C16_LIST"))
        fprintf(stderr, "C16-POINT %s k=%ld from=%d %s | %s\n", sc.name.c_str(), k, from, sig.c_str(),
                pr.detail.substr(0, 160).c_str());
      if (is_known(sig))
      {
        if (!seen_sigs[sig]++)
          ci.known.push_back(sig);
        continue;
      }
      if (failure.empty())
        failure = strf("scenario `%s`, allocation #%ld%s fails (requested by %s): %s\n%s\nsignature %s", sc.name.c_str(), k,
                       from ? " and every later one" : "", site.c_str(), kind.c_str(), pr.detail.substr(0, 700).c_str(), sig.c_str());
    }
  ci.classes.push_back(all ? "all-k" : "k-sampled-per-call-site");
  ci.desc += strf("scenario `%s`: %ld allocations, %zu fault points x 2 modes, %ld not handled cleanly\n", sc.name.c_str(), n, ks.size(), bad);
  ci.classes.push_back("scenario:" + sc.name);
  return failure;
}

std::string run_case(Src& s, CaseInfo& ci)
{
  static std::vector<Scenario> fixed = fixed_scenarios();
  size_t pick = s.range(0, fixed.size() + 2);
  ci.nontrivial = false;  // units are inserted by enumerate()
  if (pick < fixed.size())
  {
    ci.desc = "fixed scenario " + fixed[pick].name + "\n";
    ci.hash = hstr(ci.desc);
    checkpoint(s, ci.desc);
    return enumerate(fixed[pick], ci);
  }
  // generated scenario: compile + scan of a generated rule set
  GenOpts go;
  go.max_rules = 3;
  go.max_ns = 1;
  go.cond_depth = 2;
  GSet gs = gen_ruleset(s, go);
  Scenario sc;
  sc.name = "generated";
  std::vector<int> all;
  for (size_t i = 0; i < gs.rules.size(); i++) all.push_back((int) i);
  for (auto& u : units_for(gs, all)) sc.rules += u.text;
  sc.data = gen_set_buffer(s, gs, 300);
  sc.scanner = s.coin(50);
  sc.save_load = s.coin(30);
  sc.add_how = (int) s.range(0, 3);
  ci.desc = "generated scenario:\n" + sc.rules + "data \"" + esc(sc.data) + "\"\n";
  ci.hash = hstr(ci.desc);
  checkpoint(s, ci.desc);
  // only rule sets that compile without faults are scenarios
  {
    Rules R;
    CompileResult cr = compile_simple(sc.rules, R, gs.exts);
    if (cr.errors || cr.rc)
    {
      ci.discard = "generated-rules-rejected";
      return "";
    }
  }
  return enumerate(sc, ci);
}

// debugging aid: exe --aux <scenario> <k> <from> runs one fault point in the foreground
extern "C" int prop_aux(int argc, char** argv)
{
  if (argc < 5)
    return 2;
  for (auto& sc : fixed_scenarios())
    if (sc.name == argv[2])
    {
      std::string ref, tr;
      count_allocs(sc, ref);
      tr = ref;
      g_count = 0;
      g_fail_at = atol(argv[3]);
      g_fail_from = atoi(argv[4]);
      g_armed = 1;
      std::string msg = run_scenario(sc, tr);
      g_armed = 0;
      printf("result: %s\nleaks: %d\n", msg.c_str(), __lsan_do_recoverable_leak_check ? __lsan_do_recoverable_leak_check() : -1);
      return 0;
    }
  return 2;
}

std::vector<FixedCase> fixed_cases()
{
  std::vector<FixedCase> v;
  for (auto& sc : fixed_scenarios())
  {
    Scenario copy = sc;
    v.push_back({"scenario-" + sc.name, [copy](CaseInfo& ci) { return enumerate(copy, ci); }});
  }
  return v;
}
