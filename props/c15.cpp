// C15 - exceeding engine limits yields the documented error, not a crash or hang.
// Boundary generators: for each limit L, inputs at L-1, L, L+1 and far beyond.
#include "common.hpp"
#include <signal.h>
#include <sys/wait.h>

const char* PROP_ID = "C15";
void prop_init() { ys_set_arena_initial_size(65536); }

static const char* SIG_ASSERT_LOOP = "C15:zero-width-assertion-in-lazy-repeat:scan-never-ends-ignores-timeout";

static std::string canary()
{
  Rules R;
  CompileResult cr = compile_simple("rule c { strings: $a = \"canary\" $r = /c.n+a/ condition: all of them }\n", R);
  if (cr.errors || cr.rc)
    return "after the limit event a fresh compilation fails: " + cr.diag;
  std::string raw;
  scan_simple(R.r, "a canary sings", 0, true, &raw);
  if (raw.find("M default:c") == std::string::npos)
    return "after the limit event a fresh scan gives a wrong result";
  return "";
}

struct Outcome
{
  int nerr = 0, first_error = 0, rc_get = 0, rc_scan = -1;
  std::string diag, trace;
  double scan_seconds = 0;
};

static Outcome compile_scan(const std::string& src, const bytes& data, int timeout = 0, int toomany_action = 0,
                            const std::vector<std::pair<std::string, std::string>>& incs = {}, bool do_scan = true)
{
  Outcome o;
  int err = 0;
  ys_compiler* c = ys_compiler_new(&err);
  if (!c)
  {
    o.nerr = -1;
    return o;
  }
  std::vector<const char*> n, t;
  for (auto& i : incs)
  {
    n.push_back(i.first.c_str());
    t.push_back(i.second.c_str());
  }
  if (!incs.empty())
    ys_compiler_set_includes(c, (int) n.size(), n.data(), t.data());
  o.nerr = ys_compiler_add(c, YS_ADD_STRING, src.c_str(), src.size(), nullptr);
  o.first_error = ys_compiler_first_error(c);
  o.diag = ys_compiler_diag(c);
  ys_rules* R = nullptr;
  if (o.nerr == 0)
    o.rc_get = ys_compiler_get_rules(c, &R);
  ys_compiler_free(c);
  if (R && do_scan)
  {
    ys_scan_opts so;
    memset(&so, 0, sizeof so);
    so.timeout = timeout;
    so.toomany_action = toomany_action;
    so.with_strings = 0;
    char* tr = nullptr;
    double t0 = now_s();
    o.rc_scan = ys_scan(R, nullptr, (const uint8_t*) data.data(), data.size(), &so, &tr);
    o.scan_seconds = now_s() - t0;
    o.trace = tr;
    ys_free(tr);
  }
  if (R)
    ys_rules_free(R);
  return o;
}

// the documented outcome beyond a limit: its error code, or (the lexer reports its
// own limits as syntax errors) a diagnostic that names the limit
static std::string expect_compile(const Outcome& o, bool ok, int code, const std::string& what, const char* keyword = nullptr)
{
  if (!ok && o.nerr > 0 && keyword && o.diag.find(keyword) != std::string::npos)
    return "";
  if (ok)
  {
    if (o.nerr != 0 || o.rc_get != 0)
      return what + ": within the limit but rejected: " + o.diag.substr(0, 300) + strf(" (get_rules %d)", o.rc_get);
    return "";
  }
  if (o.nerr == 0)
    return what + ": beyond the limit but accepted";
  if (o.first_error != code)
    return what + strf(": beyond the limit, rejected with error %d instead of the documented %d: ", o.first_error, code) + o.diag.substr(0, 300);
  return "";
}

std::string run_case(Src& s, CaseInfo& ci)
{
  int kind = (int) s.range(0, 11);
  std::string failure;
  bool at_boundary = false;
  switch (kind)
  {
  case 0:
  {  // identifier length (128)
    static const int L[] = {1, 127, 128, 129, 130, 1000, 5000};
    int len = L[s.range(0, 6)];
    // rule identifiers (the manual: "cannot exceed 128 characters"); string identifiers
    // have no documented limit and are not judged
    int where = (int) s.range(0, 1) * 2;  // rule name, rule reference
    std::string id(len, 'a');
    std::string src = where == 0   ? "rule " + id + " { condition: true }"
                      : where == 1 ? "rule r { strings: $" + id.substr(1) + " = \"x\" condition: $" + id.substr(1) + " }"
                                   : "rule " + id + " { condition: true } rule q { condition: " + id + " }";
    ci.desc = strf("identifier of %d characters (%s)", len, where == 0 ? "rule name" : where == 1 ? "string identifier" : "rule reference");
    checkpoint(s, ci.desc);
    Outcome o = compile_scan(src, "x");
    // a string identifier includes its '$'
    failure = expect_compile(o, len <= 128, 11, ci.desc, "identifier too long");
    at_boundary = len >= 127 && len <= 130;
    break;
  }
  case 1:
  {  // integer literals
    struct
    {
      const char* lit;
      bool ok;
    } T[] = {{"9223372036854775807", true},  {"9223372036854775808", false}, {"99999999999999999999999", false},
             {"0x7FFFFFFFFFFFFFFF", true},   {"0x8000000000000000", false},  {"0xFFFFFFFFFFFFFFFFFF", false},
             {"9007199254740991KB", true},   {"9007199254740992KB", false},  {"8796093022207MB", true},
             {"8796093022208MB", false},     {"0o777777777777777777777", true}, {"0o1000000000000000000000", false}};
    size_t i = s.range(0, 11);
    ci.desc = std::string("integer literal ") + T[i].lit;
    checkpoint(s, ci.desc);
    Outcome o = compile_scan(std::string("rule r { condition: ") + T[i].lit + " > 0 }", "x");
    failure = expect_compile(o, T[i].ok, 52, ci.desc);
    at_boundary = true;
    break;
  }
  case 2:
  {  // loop nesting (4)
    int depth = (int) s.range(1, 7);
    int style = (int) s.range(0, 2);
    std::string cond = "true";
    for (int d = depth; d >= 1; d--)
    {
      if (style == 0 || (style == 2 && d % 2))
        cond = strf("for any v%d in (0..1) : (%s)", d, cond.c_str());
      else
        cond = strf("for any v%d in (1, 2) : (%s)", d, cond.c_str());
    }
    ci.desc = strf("%d nested for loops: %s", depth, cond.c_str());
    checkpoint(s, ci.desc);
    Outcome o = compile_scan("rule r { condition: " + cond + " }", "x");
    failure = expect_compile(o, depth <= 4, 12, ci.desc);
    if (failure.empty() && depth <= 4 && (o.rc_scan != 0 || o.trace.find("M default:r") == std::string::npos))
      failure = ci.desc + strf(": scan returned %d / rule did not match", o.rc_scan);
    at_boundary = depth == 4 || depth == 5;
    break;
  }
  case 3:
  {  // strings per rule (configurable)
    uint32_t limit = (uint32_t) s.range(1, 64);
    int delta = (int) s.range(0, 3) - 1;  // -1, 0, +1, +2
    int n = std::max(1, (int) limit + delta);
    std::string src = "rule r { strings:";
    for (int i = 0; i < n; i++) src += strf(" $s%d = \"str%04d\"", i, i);
    src += " condition: any of them }";
    ci.desc = strf("YR_CONFIG_MAX_STRINGS_PER_RULE=%u, rule with %d strings", limit, n);
    checkpoint(s, ci.desc);
    ys_set_config(1, limit);
    Outcome o = compile_scan(src, "str0000");
    ys_set_config(1, 10000);
    failure = expect_compile(o, (uint32_t) n <= limit, 51, ci.desc);
    at_boundary = true;
    break;
  }
  case 4:
  {  // include depth (16)
    int depth = (int) s.range(1, 20);
    std::vector<std::pair<std::string, std::string>> incs;
    for (int d = 1; d <= depth; d++)
      incs.push_back({strf("f%d", d), d == depth ? std::string("rule leaf { condition: true }\n") : strf("include \"f%d\"\n", d + 1)});
    ci.desc = strf("chain of %d nested includes", depth);
    checkpoint(s, ci.desc);
    Outcome o = compile_scan("include \"f1\"\nrule top { condition: leaf }\n", "x", 0, 0, incs);
    failure = expect_compile(o, depth <= 16, 23, ci.desc, "depth exceeded");
    at_boundary = depth >= 15 && depth <= 18;
    break;
  }
  case 5:
  {  // lexer buffer (8192): text string / regexp literal length
    static const int L[] = {100, 8000, 8189, 8190, 8191, 8192, 8193, 20000};
    int len = L[s.range(0, 7)];
    bool re = s.coin(40);
    std::string body(len, 'a');
    std::string src = re ? "rule r { strings: $a = /" + body + "/ condition: $a }" : "rule r { strings: $a = \"" + body + "\" condition: $a }";
    ci.desc = strf("%s literal of %d characters", re ? "regexp" : "text string", len);
    checkpoint(s, ci.desc);
    Outcome o = compile_scan(src, "x", 0, 0, {}, false);
    // the documented size of the lexer buffer is 8192 bytes including its terminator
    if (len <= 8189)
      failure = expect_compile(o, true, 0, ci.desc);
    else if (len >= 8192)
    {
      if (o.nerr == 0)
        failure = ci.desc + ": longer than the lexer buffer but accepted";
    }
    at_boundary = len >= 8189 && len <= 8193;
    break;
  }
  case 6:
  {  // regexp limits: repeat interval, number of splits, code size
    int sub = (int) s.range(0, 4);
    std::string re;
    bool ok = true;
    int code = 9;
    if (sub == 4)
    {
      // code-size limit: jump offsets inside a regexp are 16 bits, so a piece of more than ~32 KiB of
      // code inside an alternation / repetition must be refused ("regular expression is too large").
      // One character class is 33-34 bytes of code; n classes straddle the limit in every position
      // that emits a jump over them.  Whatever is accepted must still scan correctly.
      int n = (int) s.range(930, 1010);
      std::string big;
      for (int i = 0; i < n; i++) big += "[ab]";
      static const char* SHAPES[] = {"x|%s", "%s|x", "y(%s)*x", "y(x|%s)", "(%s)?x", "y(%s|x)z", "(x|y|%s)"};
      int shape = (int) s.range(0, 6);
      re = strf(SHAPES[shape], big.c_str());
      ci.desc = strf("regexp shape /%s/ with %d character classes in the placeholder", SHAPES[shape], n);
      checkpoint(s, ci.desc);
      // every shape matches the text "yxz" somewhere through its short alternative
      Outcome o = compile_scan("rule r { strings: $a = /" + re + "/ condition: $a }", "..yxz..", 0, 0, {}, true);
      if (o.nerr)
        failure = o.first_error == 45 || o.first_error == 49 ? "" : ci.desc + strf(": rejected with %d instead of `too large`: ", o.first_error) + o.diag;
      else if (o.rc_scan != 0)
        failure = ci.desc + strf(": accepted, but the scan returns %d", o.rc_scan);
      else if (o.trace.find("M default:r") == std::string::npos)
        failure = ci.desc + ": accepted, but the compiled regexp no longer matches its short alternative in \"..yxz..\"";
      at_boundary = true;
      break;
    }
    if (sub == 0)
    {
      static const int R[] = {32766, 32767, 32768, 40000, 100000};
      int r = R[s.range(0, 4)];
      re = strf("ab{%d}c", r);
      ok = r <= 32767;
      code = 9;
      ci.desc = strf("regexp repeat {%d}", r);
    }
    else if (sub == 1)
    {
      static const int R[] = {32767, 32768, 70000};
      int r = R[s.range(0, 2)];
      re = strf("ab{1,%d}c", r);
      ok = r <= 32767;
      ci.desc = strf("regexp repeat {1,%d}", r);
    }
    else if (sub == 2)
    {
      // every '?' is one split; RE_MAX_SPLIT_ID is 128
      // (the split counter is 8 bits wide: multiples of 256 and their neighbourhood are boundaries too)
      static const int N[] = {100, 127, 128, 129, 200, 255, 256, 257, 300, 384, 385, 512, 640, 1000};
      int n = N[s.range(0, 13)];
      for (int i = 0; i < n; i++) re += "a?";
      re += "b";
      ok = n < 128;
      code = 49;
      ci.desc = strf("regexp with %d optional items (split instructions)", n);
    }
    else
    {
      int n = (int) s.range(1, 6) * 3000;
      re = "x";
      for (int i = 0; i < n; i++) re += (char) ('a' + i % 26);
      if (re.size() > 8000)
        re.resize(8000);
      ok = true;
      ci.desc = strf("regexp of %zu literal characters", re.size());
    }
    checkpoint(s, ci.desc);
    Outcome o = compile_scan("rule r { strings: $a = /" + re + "/ condition: $a }", "xabc", 0, 0, {}, ok);
    if (sub == 2 && (int) (re.size() / 2) == 128)
      failure = o.nerr ? (o.first_error == 49 ? "" : ci.desc + strf(": rejected with %d", o.first_error)) : "";
    else
      failure = expect_compile(o, ok, code, ci.desc);
    at_boundary = true;
    break;
  }
  case 7:
  {  // scan-time fiber limit
    int reps = (int) s.range(10, 60);
    std::string re = strf("ab(c{1,%d}c){1,%d}d", reps, reps);
    bytes data = "ab" + bytes((size_t) s.range(10, 4000), 'c');
    ci.desc = "regexp /" + re + strf("/ on ab + %zu c's", data.size() - 2);
    checkpoint(s, ci.desc);
    Outcome o = compile_scan("rule r { strings: $a = /" + re + "/ condition: $a }", data);
    if (o.nerr)
      failure = o.first_error == 45 || o.first_error == 49 ? "" : ci.desc + ": rejected: " + o.diag;
    else if (o.rc_scan != 0 && o.rc_scan != 46)
      failure = ci.desc + strf(": scan returned %d (expected success or ERROR_TOO_MANY_RE_FIBERS)", o.rc_scan);
    at_boundary = o.rc_scan == 46;
    if (failure.empty() && !o.nerr)
    {
      // "after which the library remains usable": the same scanner, after the fiber limit was hit by a
      // string regexp or by the `matches` operator (scan mode: a new thread of the regexp VM is started
      // at every position of the operand), must scan the next buffer normally
      int n = (int) s.range(300, 700);
      std::string src = "rule r { strings: $a = /" + re + "/ condition: $a }\n"
                        "rule m { condition: xs matches /a{2000}b|a{1999}c/ }\nrule ok { strings: $o = \"needle\" condition: $o and xs matches /^a+$/ }\n";
      Rules R;
      CompileResult cr = compile_simple(src, R, {ExtDef{YS_EXT_STR, "xs", 0, 0, std::string((size_t) n, 'a')}});
      int e2 = 0;
      ys_scanner* sc = cr.errors ? nullptr : ys_scanner_new(R.r, &e2);
      if (sc)
      {
        ys_scan_opts so;
        memset(&so, 0, sizeof so);
        char* t1 = nullptr;
        int rc1 = ys_scan(R.r, sc, (const uint8_t*) data.data(), data.size(), &so, &t1);
        ys_free(t1);
        ys_scanner_define(sc, YS_EXT_STR, "xs", 0, 0, "aaaa");
        bytes small = "a needle";
        char* t2 = nullptr;
        int rc2 = ys_scan(R.r, sc, (const uint8_t*) small.data(), small.size(), &so, &t2);
        std::string tr2 = t2;
        ys_free(t2);
        ys_scanner_free(sc);
        ci.desc += strf("; then, same scanner (first scan returned %d; `matches` over %d a's), xs = \"aaaa\" and the buffer \"a needle\"", rc1, n);
        if (rc1 != 0 && rc1 != 46)
          failure = ci.desc + strf(": first scan returned %d (expected success or ERROR_TOO_MANY_RE_FIBERS)", rc1);
        else if (rc2 != 0 || tr2.find("M default:ok") == std::string::npos)
          failure = ci.desc + strf(": the next scan with the same scanner returns %d%s", rc2,
                                   tr2.find("M default:ok") == std::string::npos ? " and rule `ok` does not match" : "");
        if (rc1 == 46)
          at_boundary = true;
      }
      else if (cr.errors && cr.first_error != 45 && cr.first_error != 49)
        failure = ci.desc + ": second rule set rejected: " + cr.diag;
    }
    break;
  }
  case 8:
  {  // evaluation stack (configurable)
    uint32_t size = (uint32_t) s.range(4, 64);
    int shape = (int) s.range(0, 6);
    // the threshold depth is searched for: it must exist, be exact (monotone) and move by one with the stack size
    auto depth_fails = [&](uint32_t sz, int depth, int* rc_out) {
      // the innermost operand: a constant, or a loop whose iterator pushes its items
      // on the evaluation stack (integer range, enumeration, array, dictionary, string set)
      static const char* INNER[] = {"1", "1", "1",
                                    "math.to_number(for any k, v in tests.string_dict : (v == \"foo\"))",
                                    "math.to_number(for any v in tests.integer_array : (v == 2))",
                                    "math.to_number(for any i in (0..3) : (i == 2))",
                                    "math.to_number(for any of them : ($))"};
      std::string e = INNER[shape];
      for (int d = 0; d < depth; d++)
        e = shape == 1 ? "1 | (2 & (" + e + "))" : shape == 2 ? "uint8(0) + (" + e + ")" : "1 + (" + e + ")";
      ys_set_config(0, sz);
      Outcome o = compile_scan("import \"math\"\nimport \"tests\"\nrule r { strings: $a = \"x\" condition: " + e + " >= 0 or $a or true }", "x");
      ys_set_config(0, 16384);
      *rc_out = o.nerr ? -100 - o.first_error : o.rc_scan;
      return o.rc_scan == 25;
    };
    ci.desc = strf("YR_CONFIG_STACK_SIZE=%u, right-nested expression shape %d (0-2 arithmetic, 3 dictionary loop, 4 array loop, 5 range loop, 6 string-set loop)", size, shape);
    checkpoint(s, ci.desc);
    int first_fail = -1, rc = 0;
    for (int d = 0; d <= (int) size + 4; d++)
    {
      bool f = depth_fails(size, d, &rc);
      if (rc != 0 && rc != 25)
      {
        failure = ci.desc + strf(": depth %d gives %d (neither success nor ERROR_EXEC_STACK_OVERFLOW)", d, rc);
        break;
      }
      if (f && first_fail < 0)
        first_fail = d;
      if (!f && first_fail >= 0)
      {
        failure = ci.desc + strf(": depth %d overflows but the deeper %d does not", first_fail, d);
        break;
      }
    }
    if (failure.empty() && first_fail < 0)
      failure = ci.desc + ": no expression depth up to stack size + 4 reports ERROR_EXEC_STACK_OVERFLOW";
    if (failure.empty())
    {
      int rc2 = 0, ff2 = -1;
      for (int d = 0; d <= (int) size + 6 && ff2 < 0; d++)
        if (depth_fails(size + 1, d, &rc2))
          ff2 = d;
      int per_level = shape == 1 ? 2 : 1;
      (void) per_level;
      if (ff2 < first_fail)
        failure = ci.desc + strf(": a larger stack (%u) overflows earlier (depth %d) than this one (depth %d)", size + 1, ff2, first_fail);
    }
    if (failure.empty() && first_fail >= 0)
    {
      // the natural reaction to ERROR_EXEC_STACK_OVERFLOW: raise YR_CONFIG_STACK_SIZE and scan again with the
      // same scanner - the condition that overflowed must now evaluate, and lowering the limit again must
      // bring the documented error back
      static const char* INNER2[] = {"1", "1", "1",
                                     "math.to_number(for any k, v in tests.string_dict : (v == \"foo\"))",
                                     "math.to_number(for any v in tests.integer_array : (v == 2))",
                                     "math.to_number(for any i in (0..3) : (i == 2))",
                                     "math.to_number(for any of them : ($))"};
      std::string e = INNER2[shape];
      for (int d = 0; d < first_fail; d++)
        e = shape == 1 ? "1 | (2 & (" + e + "))" : shape == 2 ? "uint8(0) + (" + e + ")" : "1 + (" + e + ")";
      ys_set_config(0, size);
      Rules R;
      CompileResult cr = compile_simple("import \"math\"\nimport \"tests\"\nrule r { strings: $a = \"x\" condition: " + e + " >= 0 or $a or true }", R);
      int e2 = 0;
      ys_scanner* sc = cr.errors ? nullptr : ys_scanner_new(R.r, &e2);
      if (sc)
      {
        auto scan_rc = [&](std::string* tr) {
          ys_scan_opts so;
          memset(&so, 0, sizeof so);
          char* t = nullptr;
          int rc = ys_scan(R.r, sc, (const uint8_t*) "x", 1, &so, &t);
          *tr = t;
          ys_free(t);
          return rc;
        };
        std::string t1, t2, t3;
        int rc1 = scan_rc(&t1);
        ys_set_config(0, size * 4 + 16);
        int rc2 = scan_rc(&t2);
        ys_set_config(0, size);
        int rc3 = scan_rc(&t3);
        ys_scanner_free(sc);
        ci.desc += strf("; one scanner, depth %d: stack %u -> rc %d, stack %u -> rc %d, stack %u again -> rc %d", first_fail, size, rc1, size * 4 + 16, rc2, size, rc3);
        if (rc1 != 25)
          failure = ci.desc + ": the first scan should overflow";
        else if (rc2 != 0 || t2.find("M default:r") == std::string::npos)
          failure = ci.desc + ": after raising the stack size the same scanner should evaluate the condition";
        else if (rc3 != 25)
          failure = ci.desc + ": after lowering the stack size again the same scanner should report ERROR_EXEC_STACK_OVERFLOW";
      }
      ys_set_config(0, 16384);
    }
    at_boundary = true;
    break;
  }
  case 9:
  {  // matches per string (1,000,000) - the callback's answer decides
    int action = (int) s.range(0, 2);
    std::string filler = "rule filler { strings:";
    for (int i = 0; i < 150; i++) filler += strf(" $f%03d = \"zq%03dqz\"", i, i);
    filler += " condition: any of them }\n";
    // the hot string sits at a generated position of the rule set: its own index, its rule's index and the
    // indexes of the strings around it all differ, and every other string has occurrences behind the point
    // where the limit is reached - only the hot string may be muted
    int before = (int) s.range(0, 3);
    std::string src;
    std::vector<std::string> others;
    for (int i = 0; i < before; i++)
    {
      src += strf("rule early%d { strings: $p = \"head%d\" $q = \"tail%d\" condition: #p == 1 and #q == 1 and @q[1] > 1000000 }\n", i, i, i);
      others.push_back(strf("early%d", i));
    }
    src += "rule hot { strings: $h = \"\\x1f\" condition: $h }\n" + filler +
           "rule other { strings: $a = \"abc\" $b = \"\\x1f\\x1fabc\" condition: #a == 2 and #b == 1 and @a[2] > 1000000 }\n";
    others.push_back("other");
    bytes data = "abc head0 head1 head2 " + bytes(1000050, '\x1f') + "abc tail0 tail1 tail2 zq001qz zq002qz";
    ci.desc = strf("a string with 1,000,050 matches (rule %d of the set); callback answers %s to TOO_MANY_MATCHES", before,
                   action == 0 ? "CONTINUE" : action == 1 ? "ABORT" : "ERROR");
    checkpoint(s, ci.desc);
    Outcome o = compile_scan(src, data, 0, action);
    if (o.nerr)
      failure = "rules rejected: " + o.diag;
    else if (o.trace.find("T default:hot $h") == std::string::npos)
      failure = ci.desc + ": no CALLBACK_MSG_TOO_MANY_MATCHES for the string";
    else if (action == 0)
    {
      if (o.rc_scan != 0)
        failure = ci.desc + strf(": scan returned %d", o.rc_scan);
      else if (o.trace.find("M default:filler") == std::string::npos)
        failure = ci.desc + ": rule `filler` no longer matches";
      for (auto& nm : others)
        if (failure.empty() && o.trace.find("M default:" + nm) == std::string::npos)
          failure = ci.desc + ": the results of rule `" + nm + "` changed (it must still match: its strings occur before and after the point where the limit is reached)";
      if (!failure.empty())
        ;
      else if (o.trace.find("M default:hot") == std::string::npos)
        failure = ci.desc + ": the muted string's rule no longer matches";
    }
    else if (o.rc_scan != 30)
      failure = ci.desc + strf(": scan returned %d instead of ERROR_TOO_MANY_MATCHES", o.rc_scan);
    if (failure.empty())
    {
      // "after which the library remains usable": the same scanner, next scan - the
      // string that was muted must be live again
      Rules R;
      CompileResult cr = compile_simple(src, R);
      int e2 = 0;
      ys_scanner* sc = cr.errors ? nullptr : ys_scanner_new(R.r, &e2);
      if (sc)
      {
        ys_scan_opts so;
        memset(&so, 0, sizeof so);
        so.toomany_action = action;
        char* t1 = nullptr;
        ys_scan(R.r, sc, (const uint8_t*) data.data(), data.size(), &so, &t1);
        ys_free(t1);
        bytes small = bytes("abc\x1f\x1f\x1f", 6);
        char* t2 = nullptr;
        int rc2 = ys_scan(R.r, sc, (const uint8_t*) small.data(), small.size(), &so, &t2);
        std::string tr2 = t2;
        ys_free(t2);
        ys_scanner_free(sc);
        if (rc2 != 0 || tr2.find("M default:hot") == std::string::npos)
          failure = ci.desc + strf(": the next scan with the same scanner returns %d and %s", rc2,
                                   tr2.find("M default:hot") == std::string::npos ? "no longer reports the string that hit the limit" : "ok");
      }
    }
    at_boundary = true;
    break;
  }
  case 10:
  {  // timeouts on rule shapes that run long
    int shape = (int) s.range(0, 3);
    int timeout = (int) s.range(1, 2);
    std::string src;
    bytes data = "xyz";
    if (shape == 0)
      src = "rule r { condition: for all i in (0..2000000000) : (for all j in (0..2000000000) : (for all k in (0..2000000000) : (for all l in "
            "(0..2000000000) : (i + j + k + l >= 0)))) }";
    else if (shape == 1)
    {
      src = "import \"math\"\nimport \"hash\"\nrule r { condition: for all i in (0..2000000000) : (math.entropy(i % 7, filesize) >= 0.0 and "
            "hash.checksum32(i % 5, filesize) >= 0) }";
      data = bytes(300000, 'q');
    }
    else if (shape == 2)
    {
      src = "rule r { strings: $a = /[a-z]{3,}x[0-9]*y/ $b = { 61 [-] 62 [-] 63 } condition: #a > 100000000 or #b > 100000000 or "
            "for all i in (0..2000000000) : (#a + i >= 0) }";
      data = bytes(2000000, 'a');
    }
    else
    {
      src = "rule r { condition: for all i in (0..2000000000) : (uint8(i % 3) + uint16(0) + uint32(0) >= 0 and \"abc\" contains \"b\") }";
      data = "xyzxyzxyz";
    }
    ci.desc = strf("scan timeout %d s on long-running rule shape %d", timeout, shape);
    checkpoint(s, ci.desc);
    Outcome o = compile_scan(src, data, timeout);
    if (o.nerr)
      failure = "rules rejected: " + o.diag;
    else if (o.rc_scan != 26)
      failure = ci.desc + strf(": scan returned %d after %.1f s instead of ERROR_SCAN_TIMEOUT", o.rc_scan, o.scan_seconds);
    else if (o.scan_seconds > timeout * 10 + 10)
      failure = ci.desc + strf(": ERROR_SCAN_TIMEOUT only after %.1f s", o.scan_seconds);
    else if (o.scan_seconds > timeout + 3)
      ci.classes.push_back("inconclusive:timeout-later-than-deadline+3s(load)");
    if (failure.empty() && s.coin(35))
    {
      // the timeout counts from the start of the scan, also when the scan is delivered in pieces: ten
      // blocks, each reported NOT_READY once, the caller resuming every 300-400 ms, timeout 1 s
      Rules R;
      CompileResult cr = compile_simple("rule r { strings: $a = \"abc\" condition: #a >= 0 }", R);
      int e2 = 0;
      ys_scanner* sc = cr.errors ? nullptr : ys_scanner_new(R.r, &e2);
      if (sc)
      {
        bytes d = bytes(1000, 'x') + "abc";
        std::vector<uint32_t> sizes(10, 100);
        sizes[9] = (uint32_t) d.size() - 900;
        ys_scan_opts so;
        memset(&so, 0, sizeof so);
        so.entry = YS_SCAN_BLOCKS;
        so.nblocks = 10;
        so.block_sizes = sizes.data();
        so.notready_mask = 0x55555555555ULL & ~1ULL;  // every second iterator call from the 3rd on
        so.timeout = 1;
        so.resume_sleep_us = (int) s.range(300000, 400000);
        char* t = nullptr;
        double t0 = now_s();
        int rc = ys_scan(R.r, sc, (const uint8_t*) d.data(), d.size(), &so, &t);
        double wall = now_s() - t0;
        std::string tr = t;
        ys_free(t);
        ys_scanner_free(sc);
        size_t resumes = 0, pos = 0;
        while ((pos = tr.find("\nB ", pos)) != std::string::npos) resumes++, pos += 3;
        ci.desc += strf("; then a 10-block scan resumed every %d us with timeout 1 s: rc %d after %.2f s and %zu resumptions", so.resume_sleep_us, rc, wall, resumes);
        if (rc == 0 && wall > 2.5)
          failure = ci.desc + ": an incremental scan with a 1 s timeout ran to completion although it took more than twice that long";
        else if (rc != 0 && rc != 26)
          failure = ci.desc + ": unexpected return code";
      }
    }
    at_boundary = true;
    break;
  }
  default:
  {  // match data configuration: any setting, scans still work
    static const uint32_t V[] = {0, 1, 511, 512, 513, 100000};
    uint32_t v = V[s.range(0, 5)];
    ci.desc = strf("YR_CONFIG_MAX_MATCH_DATA=%u", v);
    checkpoint(s, ci.desc);
    ys_set_config(2, v);
    Outcome o = compile_scan("rule r { strings: $a = \"abcd\" $b = /x[0-9]{600}y/ condition: #a == 2 and !b[1] == 602 and @b[1] == 4 }",
                             "abcd" + ("x" + bytes(600, '7') + "y") + "abcd");
    ys_set_config(2, 512);
    if (o.nerr || o.rc_scan != 0 || o.trace.find("M default:r") == std::string::npos)
      failure = ci.desc + strf(": compile errors %d, scan %d, rule %s", o.nerr, o.rc_scan, o.trace.substr(0, 40).c_str());
    at_boundary = true;
  }
  }
  if (failure.empty())
    failure = canary();
  ci.hash = hstr(ci.desc);
  ci.nontrivial = at_boundary;
  static const char* KN[] = {"identifier-length", "integer-literal", "loop-nesting", "strings-per-rule", "include-depth", "lexer-buffer",
                             "regexp-limits", "regexp-fibers", "stack-size", "matches-per-string", "scan-timeout", "match-data"};
  ci.classes.push_back(KN[kind]);
  return failure;
}

std::vector<FixedCase> fixed_cases()
{
  std::vector<FixedCase> v;
  // known finding: a zero-width assertion inside a lazy repeat makes the scan spin
  // for ever, ignoring the timeout; run in a child with a watchdog
  v.push_back({"known-assertion-in-lazy-repeat", [](CaseInfo& ci) -> std::string {
                 ci.desc = "rule r { strings: $a = /(^)+?a/ condition: $a } scanned over \"a0-0B\" with a 1 s timeout";
                 fflush(stdout);
                 pid_t pid = fork();
                 if (pid == 0)
                 {
                   alarm(30);
                   Outcome o = compile_scan("rule r { strings: $a = /(^)+?a/ condition: $a }", "a0-0B", 1);
                   _exit(o.nerr == 0 && (o.rc_scan == 0 || o.rc_scan == 26 || o.rc_scan == 46) ? 0 : 4);
                 }
                 int st = 0;
                 double t0 = now_s();
                 while (waitpid(pid, &st, WNOHANG) == 0)
                 {
                   if (now_s() - t0 > 12)
                   {
                     kill(pid, SIGKILL);
                     waitpid(pid, &st, 0);
                     if (is_known(SIG_ASSERT_LOOP))
                     {
                       ci.known.push_back(SIG_ASSERT_LOOP);
                       return "";
                     }
                     return "the scan is still running 12 s after a 1 s timeout";
                   }
                   usleep(20000);
                 }
                 if (WIFEXITED(st) && WEXITSTATUS(st) == 0)
                   return "";
                 return strf("child ended with status 0x%x", st);
               }});
  return v;
}
